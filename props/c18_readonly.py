"""C18 — read-only operations do not change scenarios or planning problems.

1-3 inspector clients issue histories of read-only operations (queries, goal checks, ==/hash,
copy/pickle, draw+render, XML / protobuf export incl. failing variants) on a rich scenario obtained
directly from the builders or through a file round trip.  Invariant: a deep structural snapshot through
public accessors is unchanged after every operation, whether it returned or raised; fork-isolated
exports taken at step 0 and later are identical modulo the date stamp.
"""
import collections
import copy
import datetime
import json
import math
import os
import pickle
import shutil
import tempfile

import numpy as np

from commonroad.common.file_reader import CommonRoadFileReader
from commonroad.common.file_writer import CommonRoadFileWriter
from commonroad.common.util import FileFormat, Interval
from commonroad.common.writer.file_writer_interface import OverwriteExistingFile
from commonroad.prediction.prediction import SetBasedPrediction, TrajectoryPrediction
from commonroad.scenario.obstacle import DynamicObstacle, EnvironmentObstacle, ObstacleRole, ObstacleType, PhantomObstacle
from commonroad.scenario.trajectory import Trajectory

from crkit import build, gen
from crkit.abstract import occ_desc, shape_desc, state_desc, value_desc
from props.c15_writers import normalise
from simkit.engine import Client, HarnessError, Property, RunBase, Violation, canon
from simkit.seams import Seams, SimClock, in_fork

SCRATCH_ROOT = "/dev/shm" if os.path.isdir("/dev/shm") else tempfile.gettempdir()
FMT = {"xml": FileFormat.XML, "pb": FileFormat.PROTOBUF}


# ------------------------------------------------------------------ the snapshot (side-effect free by construction)
def _signal_desc(s):
    if s is None:
        return None
    out = []
    for a in type(s).__slots__:
        if hasattr(s, a):
            out.append([a, value_desc(getattr(s, a))])
    return out


def _assignment(d):
    if d is None:
        return None
    return [type(d).__name__, sorted((int(k), sorted(v)) for k, v in d.items())]


def _prediction_desc(p):
    if p is None:
        return None
    if isinstance(p, TrajectoryPrediction):
        tr = p.trajectory
        return ["traj", tr.initial_time_step, [state_desc(s) for s in tr.state_list], shape_desc(p.shape),
                _assignment(p.center_lanelet_assignment), _assignment(p.shape_lanelet_assignment)]
    if isinstance(p, SetBasedPrediction):
        return ["set", p.initial_time_step, [occ_desc(o) for o in p.occupancy_set]]
    return ["?", type(p).__name__]


def _ids(s):
    return None if s is None else sorted(s)


def obstacle_snapshot(o):
    if isinstance(o, EnvironmentObstacle):
        return ["env", o.obstacle_id, o.obstacle_type.name, shape_desc(o.obstacle_shape)]
    if isinstance(o, PhantomObstacle):
        return ["phantom", o.obstacle_id, _prediction_desc(o.prediction)]
    out = [o.obstacle_role.name, o.obstacle_id, o.obstacle_type.name, shape_desc(o.obstacle_shape),
           state_desc(o.initial_state), _ids(o.initial_center_lanelet_ids), _ids(o.initial_shape_lanelet_ids),
           _signal_desc(o.initial_signal_state),
           None if o.signal_series is None else [_signal_desc(s) for s in o.signal_series]]
    if isinstance(o, DynamicObstacle):
        out += [_prediction_desc(o.prediction), [state_desc(s) for s in o.history],
                [_signal_desc(s) for s in o.signal_history], [_ids(s) for s in o.center_lanelet_ids_history],
                [_ids(s) for s in o.shape_lanelet_ids_history], o.external_dataset_id]
    return out


def lanelet_snapshot(la):
    sl = la.stop_line
    return [la.lanelet_id, np.asarray(la.left_vertices).tolist(), np.asarray(la.center_vertices).tolist(),
            np.asarray(la.right_vertices).tolist(), list(la.predecessor), list(la.successor),
            la.adj_left, la.adj_left_same_direction, la.adj_right, la.adj_right_same_direction,
            la.line_marking_left_vertices.name, la.line_marking_right_vertices.name,
            sorted(t.name for t in la.lanelet_type), sorted(u.name for u in la.user_one_way),
            sorted(u.name for u in la.user_bidirectional), sorted(la.traffic_signs), sorted(la.traffic_lights),
            sorted(la.adjacent_areas),
            None if sl is None else [np.asarray(sl.start).tolist(), np.asarray(sl.end).tolist(), sl.line_marking.name,
                                     _ids(sl.traffic_sign_ref), _ids(sl.traffic_light_ref)],
            sorted(la.static_obstacles_on_lanelet or []),
            sorted((int(t), sorted(v)) for t, v in la.dynamic_obstacles_on_lanelet.items())]


def info_desc(info):
    if info is None:
        return None
    return [str(getattr(info, a, None)) for a in ("commonroad_version", "map_id", "date", "author", "affiliation",
                                                  "source", "licence_name", "licence_text")]


def network_snapshot(net):
    out = {"lanelets": [lanelet_snapshot(la) for la in net.lanelets], "signs": [], "lights": [], "intersections": [],
           "information": info_desc(getattr(net, "information", None))}
    for s in net.traffic_signs:
        out["signs"].append([s.traffic_sign_id, [(e.traffic_sign_element_id.name, list(e.additional_values))
                                                 for e in s.traffic_sign_elements],
                             _ids(s.first_occurrence), np.asarray(s.position).tolist(), bool(s.virtual)])
    for lt in net.traffic_lights:
        c = lt.traffic_light_cycle
        answers = None
        if c is not None and c.cycle_elements:
            try:
                # public derived data of the cycle and a fixed panel of answers: a query that corrupts the memo shows
                # up as a changed value / a changed answer
                answers = [[int(x) for x in c.cycle_init_timesteps],
                           [lt.get_state_at_time_step(t).name for t in range(0, 14)]]
            except Exception as e:  # noqa
                answers = ["raised", type(e).__name__]
        out["lights"].append([lt.traffic_light_id, np.asarray(lt.position).tolist(),
                              None if c is None else [[(e.state.name, e.duration) for e in c.cycle_elements],
                                                      c.time_offset, c.active], answers,
                              [x.name for x in lt.color], lt.active, lt.direction.name, shape_desc(lt.shape)])
    for it in net.intersections:
        out["intersections"].append([it.intersection_id,
                                     [[inc.incoming_id, sorted(inc.incoming_lanelets), sorted(inc.successors_right),
                                       sorted(inc.successors_straight), sorted(inc.successors_left), inc.left_of]
                                      for inc in it.incomings], sorted(it.crossings)])
    return out


def pps_snapshot(pps):
    out = []
    for pid, pp in pps.planning_problem_dict.items():
        g = pp.goal
        log = g.lanelets_of_goal_position
        out.append([pid, pp.planning_problem_id, state_desc(pp.initial_state), [state_desc(s) for s in g.state_list],
                    None if log is None else [type(log).__name__, [(int(k), list(v)) for k, v in log.items()]]])
    return out


def snapshot(sc, pps, panel_points):
    loc = sc.location
    snap = {
        "dt": sc.dt, "id": str(sc.scenario_id), "author": sc.author, "affiliation": sc.affiliation,
        "source": sc.source, "tags": None if sc.tags is None else sorted(t.name for t in sc.tags),
        "location": None if loc is None else [loc.geo_name_id, loc.gps_latitude, loc.gps_longitude,
                                               loc.environment is None, loc.geo_transformation is None],
        "obstacles": [obstacle_snapshot(o) for o in sc.obstacles],
        "network": network_snapshot(sc.lanelet_network),
        "pps": pps_snapshot(pps),
    }
    # a fixed panel of lookup answers: an index that was dropped and not restored shows as a changed answer
    try:
        snap["panel"] = [sorted(x) for x in sc.lanelet_network.find_lanelet_by_position(panel_points)]
    except Exception as e:  # noqa
        snap["panel"] = ["raised", type(e).__name__]
    return json.dumps(canon(snap), sort_keys=True)


def first_difference(a, b, path="$"):
    if type(a) is not type(b):
        return f"{path}: {str(a)[:80]} -> {str(b)[:80]}"
    if isinstance(a, dict):
        for k in sorted(set(a) | set(b)):
            if k not in a or k not in b:
                return f"{path}.{k}: present only {'before' if k in a else 'after'}"
            d = first_difference(a[k], b[k], f"{path}.{k}")
            if d:
                return d
        return None
    if isinstance(a, list):
        if len(a) != len(b):
            return f"{path}: length {len(a)} -> {len(b)}: {str(a)[:120]} -> {str(b)[:120]}"
        for i, (x, y) in enumerate(zip(a, b)):
            d = first_difference(x, y, f"{path}[{i}]")
            if d:
                return d
        return None
    return None if a == b else f"{path}: {str(a)[:80]} -> {str(b)[:80]}"


def warm_matplotlib():
    """Run once in the pristine twin server: matplotlib's own start-up work (font cache, Agg canvas, text layout).
    Nothing of commonroad is touched."""
    import matplotlib

    matplotlib.use("Agg")
    import matplotlib.pyplot as plt

    fig, ax = plt.subplots()
    ax.plot([0, 1], [0, 1])
    ax.text(0.5, 0.5, "warm-up")
    fig.canvas.draw()
    plt.close("all")


def _scribble_state(st):
    for a in ("velocity", "acceleration", "yaw_rate"):
        if hasattr(st, a) and isinstance(getattr(st, a), float):
            setattr(st, a, getattr(st, a) + 17.0)
    pos = getattr(st, "position", None)
    if isinstance(pos, np.ndarray):
        pos += 5.0  # in place: the array belongs to the copy


def _scribble_network(net):
    for la in net.lanelets:
        for arr_ in (la.left_vertices, la.center_vertices, la.right_vertices):
            arr_ += 2.5
        la.predecessor.append(424242)
        la.traffic_signs.add(424243)
        la.lanelet_type.clear()
        la.user_one_way.clear()
        if la.stop_line is not None:
            la.stop_line.start += 1.0
        if la.static_obstacles_on_lanelet is not None:
            la.static_obstacles_on_lanelet.add(424244)
        la.dynamic_obstacles_on_lanelet.setdefault(0, set()).add(424245)
    for sg in net.traffic_signs:
        sg.first_occurrence.add(424246)
        for e in sg.traffic_sign_elements:
            e.additional_values.append("13")
    for lt in net.traffic_lights:
        c = lt.traffic_light_cycle
        if c is not None and c.cycle_elements:
            c.cycle_elements[0].duration += 3
            c.cycle_elements = c.cycle_elements  # the documented way to make the change effective
        lt.color.clear()
    for it in net.intersections:
        for inc in it.incomings:
            inc.incoming_lanelets.add(424247)
            inc.successors_left.add(424248)
        it.crossings.add(424249)


def _scribble_pps(pps):
    for pp in pps.planning_problem_dict.values():
        _scribble_state(pp.initial_state)
        for st in pp.goal.state_list:
            if hasattr(st, "time_step") and isinstance(st.time_step, Interval):
                st.time_step = Interval(st.time_step.start + 1, st.time_step.end + 2)
            _scribble_state(st)
        log = pp.goal.lanelets_of_goal_position
        if log:
            for v in log.values():
                v.append(424250)
    pps.planning_problem_dict.pop(next(iter(pps.planning_problem_dict)), None)


def _scribble(c):
    """Work on a deep copy IN PLACE at every level (containers, arrays, states): a copy that still shares something
    with its source hands these changes through to the source."""
    from commonroad.planning.planning_problem import PlanningProblemSet
    from commonroad.scenario.lanelet import LaneletNetwork
    from commonroad.scenario.scenario import Scenario

    if isinstance(c, PlanningProblemSet):
        return _scribble_pps(c)
    if isinstance(c, LaneletNetwork):
        return _scribble_network(c)
    assert isinstance(c, Scenario)
    for o in c.obstacles:
        init = getattr(o, "initial_state", None)
        if init is not None:
            _scribble_state(init)
        p = getattr(o, "prediction", None)
        if isinstance(p, TrajectoryPrediction):
            for st in p.trajectory.state_list:
                _scribble_state(st)
            if p.center_lanelet_assignment:
                for v in p.center_lanelet_assignment.values():
                    v.add(424251)
        elif isinstance(p, SetBasedPrediction):
            p.occupancy_set.pop()
        sh = getattr(o, "obstacle_shape", None)
        if sh is not None and hasattr(sh, "shapes"):
            sh.shapes.pop()
        for attr in ("initial_center_lanelet_ids", "initial_shape_lanelet_ids"):
            v = getattr(o, attr, None)
            if isinstance(v, set):
                v.add(424252)
        if getattr(o, "signal_series", None):
            o.signal_series.pop()
        if isinstance(o, DynamicObstacle):
            o.history.append(copy.copy(o.initial_state))
    _scribble_network(c.lanelet_network)
    sid = c.scenario_id
    sid.map_id += 5
    if isinstance(sid.prediction_id, list):
        sid.prediction_id.append(9)
    if c.tags is not None:
        c.tags.clear()
    c.author = "someone else"
    c.translate_rotate(np.array([3.0, 1.0]), 0.3)


class Run(RunBase):
    def __init__(self, universe, cfg):
        super().__init__(universe, cfg)
        self.dir = tempfile.mkdtemp(prefix="c18-", dir=SCRATCH_ROOT)
        self.clock = SimClock(datetime.datetime(2024, 2, 29, 23, 59, 50))
        self.seams = Seams(self.clock)
        os.environ.setdefault("MPLCONFIGDIR", self.dir)
        sc = build.build_scenario(universe["scenario"])
        pps = build.build_pps(universe["pps"])
        self.source = "direct"
        if cfg["source"] in ("xml", "pb"):
            try:
                fmt = FMT[cfg["source"]]
                path = os.path.join(self.dir, "src" + fmt.value)
                CommonRoadFileWriter(sc, pps, decimal_precision=6, file_format=fmt).write_to_file(
                    path, OverwriteExistingFile.ALWAYS)
                sc, pps = CommonRoadFileReader(path, fmt).open(lanelet_assignment=cfg["assignment"])
                self.source = cfg["source"]
            except Exception:  # noqa  (whether everything can be serialised is C01/C02, not C18)
                sc = build.build_scenario(universe["scenario"])
                pps = build.build_pps(universe["pps"])
                self.probe("source-roundtrip-failed-fallback-direct")
        elif cfg["assignment"]:
            try:
                sc.assign_obstacles_to_lanelets()
            except Exception:  # noqa
                pass
        if cfg.get("pre_moved"):
            # the map went through translate_rotate before anybody inspects it (arrays produced by a transformation can
            # have another memory layout than arrays given by the user or read from a file)
            sc.lanelet_network.translate_rotate(np.array(cfg["pre_moved"][:2], dtype=float), cfg["pre_moved"][2])
            self.probe("map-was-transformed-before")
        self.probe("source-" + self.source)
        self.sc, self.pps = sc, pps
        self.panel = [np.array(p, dtype=float) for p in universe["panel"]]
        # an independent network built with every argument left at its default: nobody touches it during the run
        from commonroad.scenario.lanelet import LaneletNetwork

        self.idle_net = LaneletNetwork()
        self.idle_base = json.dumps(canon(network_snapshot(self.idle_net)), sort_keys=True)
        self.base = snapshot(sc, pps, self.panel)
        self.base_export = {}
        for fmt in ("xml", "pb"):
            self.base_export[fmt] = self._export(fmt)
            if self.base_export[fmt][0] != "ok":
                self.probe(f"baseline-export-{fmt}-fails")
        self.features = universe.get("features", [])
        for f in self.features:
            self.probe("feature:" + f)
        if any(isinstance(pp.goal.lanelets_of_goal_position, collections.defaultdict)
               for pp in pps.planning_problem_dict.values()):
            self.probe("feature:defaultdict-goal-table")
            self.features = self.features + ["defaultdict-goal-table"]

    def close(self):
        self.seams.remove()
        try:
            import matplotlib.pyplot as plt

            plt.close("all")
        except Exception:  # noqa
            pass
        shutil.rmtree(self.dir, ignore_errors=True)

    # ------------------------------------------------------------------ fork-isolated export
    def _export(self, fmt):
        sc, pps, d = self.sc, self.pps, self.dir

        def f():
            path = os.path.join(d, "export-child" + FMT[fmt].value)
            CommonRoadFileWriter(sc, pps, decimal_precision=8, file_format=FMT[fmt]).write_to_file(
                path, OverwriteExistingFile.ALWAYS)
            with open(path, "rb") as fh:
                return normalise(fmt, fh.read())
        r = in_fork(f)
        return (r[0], r[1]) if r[0] == "ok" else (r[0], r[1])

    def _check_unchanged(self, op, outcome):
        now = snapshot(self.sc, self.pps, self.panel)
        tag = f"{op['op']}[{op.get('what', op.get('fmt', ''))}]"
        if now != self.base:
            d = first_difference(json.loads(self.base), json.loads(now))
            raise Violation(f"C18/mutated/{tag}",
                            f"read-only operation {op} changed the scenario / planning problems: {d} "
                            f"(outcome of the operation: {outcome}; scenario source: {self.source})",
                            {"difference": d})

    def _check_idle(self, op):
        now = json.dumps(canon(network_snapshot(self.idle_net)), sort_keys=True)
        if now != self.idle_base:
            d = first_difference(json.loads(self.idle_base), json.loads(now))
            raise Violation(f"C18/independent-network-affected/{op['op']}[{op.get('what', op.get('fmt', ''))}]",
                            f"read-only operation {op} on the scenario changed an independent, default-built lanelet "
                            f"network that takes no part in the run: {d}")

    def _check_export(self, op, fmt):
        base = self.base_export[fmt]
        if base[0] != "ok":
            return
        now = self._export(fmt)
        tag = f"{op['op']}[{op.get('what', op.get('fmt', ''))}]"
        if now[0] != "ok":
            raise Violation(f"C18/export-now-fails[{fmt}]/{tag}",
                            f"exporting to {fmt} worked before the read-only operations and raises {now[1]} after {op}")
        if now[1] != base[1]:
            raise Violation(f"C18/export-differs[{fmt}]/{tag}",
                            f"the {fmt} export after read-only operation {op} differs from the export taken before "
                            f"any operation ({len(base[1])} vs {len(now[1])} bytes, date aside)")
        self.probe("export-compared-" + fmt)

    # ------------------------------------------------------------------ ops
    def apply(self, op):
        fn = getattr(self, "_do_" + op["op"])
        try:
            res = fn(op)
            outcome = "ok" if res is None else res
        except (Violation, HarnessError):
            raise
        except Exception as e:  # noqa   exceptions of inspections are tolerated; mutation is not
            outcome = {"raised": type(e).__name__}
            self.probe("op-raised:" + op["op"])
        for f in self.features:
            self.probe(f"cell:{op['op']}x{f}")
        self._check_unchanged(op, outcome)
        self._check_idle(op)
        if op.get("export_after"):
            self._check_export(op, op["export_after"])
        self.note_state([op["op"], op.get("what", op.get("fmt", "")), str(outcome)[:20], self.source, self.features])
        return outcome if isinstance(outcome, dict) else "ok"

    def _ob(self, oid):
        for o in self.sc.obstacles:
            if o.obstacle_id == oid:
                return o
        return None

    def _do_q_obstacle(self, op):
        o = self._ob(op["id"])
        w, t = op["what"], op["t"]
        if w == "occupancy":
            o.occupancy_at_time(t)
        elif w == "state":
            o.state_at_time(t)
        elif w == "signal":
            o.signal_state_at_time_step(t)
        elif w == "occupancy_set":
            o.prediction.occupancy_set  # noqa
        elif w == "final_time_step":
            o.prediction.final_time_step  # noqa

    def _do_q_scenario(self, op):
        sc, w, t = self.sc, op["what"], op.get("t", 0)
        if w == "occupancies":
            sc.occupancies_at_time_step(t, op.get("role") and ObstacleRole[op["role"]])
        elif w == "states":
            sc.obstacle_states_at_time_step(t)
        elif w == "by_role_type":
            sc.obstacles_by_role_and_type(op.get("role") and ObstacleRole[op["role"]],
                                          op.get("type") and ObstacleType[op["type"]])
        elif w == "by_position":
            a, b = op["box"]
            sc.obstacles_by_position_intervals([Interval(a[0], a[1]), Interval(b[0], b[1])],
                                               tuple(ObstacleRole[r] for r in op["roles"]), t)
        elif w == "by_id":
            sc.obstacle_by_id(op["id"])
        elif w == "generate_id_on_copy":
            copy.deepcopy(sc).generate_object_id()
        elif w == "str":
            str(sc), repr(sc.lanelet_network), str(self.pps.planning_problem_dict)

    def _do_q_network(self, op):
        net, w = self.sc.lanelet_network, op["what"]
        la = net.find_lanelet_by_id(op["lanelet"]) if "lanelet" in op else None
        if w == "by_position":
            net.find_lanelet_by_position([np.array(p, dtype=float) for p in op["pts"]])
        elif w == "by_shape":
            net.find_lanelet_by_shape(build.build_shape(op["shape"]))
        elif w == "distance":
            la.distance, la.inner_distance  # noqa
        elif w == "interpolate":
            la.interpolate_position(op["s"] * float(la.distance[-1]))
        elif w == "polygon":
            la.polygon.shapely_object, la.polygon.vertices  # noqa
        elif w == "successors":
            la.find_lanelet_successors_in_range(net, op["range"])
            la.find_lanelet_predecessors_in_range(net, op["range"])
        elif w == "merge_successors":
            type(la).all_lanelets_by_merging_successors_from_lanelet(la, net, op["range"])
        elif w == "proximity":
            net.lanelets_in_proximity(np.array(op["pts"][0], dtype=float), op["range"])
        elif w == "map_obstacles":
            obs = [o for o in self.sc.static_obstacles + self.sc.dynamic_obstacles]
            net.map_obstacles_to_lanelets(obs)
            net.filter_obstacles_in_network(obs)
        elif w == "most_likely":
            sts = [o.initial_state for o in self.sc.dynamic_obstacles]
            net.find_most_likely_lanelet_by_state(sts)
        elif w == "contains":
            la.contains_points(np.array(op["pts"], dtype=float))
        elif w == "orientation":
            la.orientation_by_position(np.array(op["pts"][0], dtype=float))
        elif w == "light":
            for lt in net.traffic_lights:
                lt.get_state_at_time_step(op["t"])
        elif w == "registry":
            la.dynamic_obstacle_by_time_step(op["t"]), la.static_obstacles_on_lanelet, la.dynamic_obstacles_on_lanelet  # noqa
            la.get_obstacles([o for o in self.sc.static_obstacles + self.sc.dynamic_obstacles
                              if o.occupancy_at_time(op["t"]) is not None], op["t"])
        elif w == "merge_predecessors":
            type(la).all_lanelets_by_merging_predecessors_from_lanelet(la, net, op["range"])
        elif w == "by_id":
            for i in (op["lanelet"], 99999):
                net.find_lanelet_by_id(i), net.find_traffic_sign_by_id(i), net.find_traffic_light_by_id(i)
                net.find_intersection_by_id(i), net.find_area_by_id(i)
            for t in net.traffic_lights:
                net.get_traffic_lights_referenced_lanelets(t.traffic_light_id)
            for it in net.intersections:
                it.map_incoming_lanelets, it.incomings, it.crossings  # noqa
            la.convert_to_polygon()
        elif w == "derive":
            # new networks derived from this one: the source must stay as it is
            type(net).create_from_lanelet_list(net.lanelets)
            type(net).create_from_lanelet_list(net.lanelets, cleanup_ids=False)
            type(net).create_from_lanelet_network(net, shape_input=build.build_shape(op["shape"]))
            type(net).create_from_lanelet_network(net)
        elif w == "trajectories":
            for o in self.sc.dynamic_obstacles:
                p = o.prediction
                if isinstance(p, TrajectoryPrediction):
                    tr = p.trajectory
                    tr.states_in_time_interval(op["t"], op["t"] + 3), tr.final_state, tr.state_at_time_step(op["t"])
                    tr.check_state_list(tr.state_list)
                    p.initial_time_step, p.final_time_step  # noqa
        elif w == "sign_interpreter":
            from commonroad.scenario.traffic_sign_interpreter import TrafficSignInterpreter
            from commonroad.scenario.traffic_sign import SupportedTrafficSignCountry

            ti = TrafficSignInterpreter(SupportedTrafficSignCountry.GERMANY, net)
            ids = frozenset(x.lanelet_id for x in net.lanelets)
            ti.speed_limit(ids), ti.required_speed(ids)
        elif w == "merge_pair":
            for x in net.lanelets:
                for sid in x.successor:
                    y = net.find_lanelet_by_id(sid)
                    if y is not None:
                        type(x).merge_lanelets(x, y)
        elif w == "lookups":
            net.map_inc_lanelets_to_intersections, net.lanelet_polygons  # noqa
            for s in net.traffic_signs:
                net.get_traffic_sign_referenced_lanelets(s.traffic_sign_id)

    def _do_goal(self, op):
        pp = self.pps.planning_problem_dict[op["pp"]]
        if op["what"] == "is_reached":
            st = build.build_state(op["state"])
            before = json.dumps(canon(state_desc(st)))
            try:
                pp.goal.is_reached(st)
            finally:
                if json.dumps(canon(state_desc(st))) != before:
                    raise Violation("C18/mutated-argument/goal[is_reached]",
                                    f"GoalRegion.is_reached changed the state it was asked about: {op['state']}")
        else:
            states = [build.build_state(s) for s in op["states"]]
            pp.goal_reached(Trajectory(states[0].time_step, states))

    def _do_compare(self, op):
        sc, pps, w = self.sc, self.pps, op["what"]
        objs = {"scenario": sc, "network": sc.lanelet_network, "pps": pps}
        if w in objs:
            x = objs[w]
            x == x, x != copy.deepcopy(x)  # noqa
            hash(x)
        elif w == "scenario_id":
            sid = sc.scenario_id
            sid == copy.deepcopy(sid), sid != sid, str(sid), sid.country_name, sid.map_name  # noqa
            hash(sid)  # (unhashable with a list of prediction ids: tolerated as a raising inspection)
        elif w == "obstacles":
            for o in sc.obstacles:
                o == o, hash(o)  # noqa
                p = getattr(o, "prediction", None)
                if p is not None:
                    p == p, hash(p)  # noqa
        elif w == "lanelets":
            for la in sc.lanelet_network.lanelets:
                la == la, hash(la)  # noqa
        elif w == "problems":
            for pp in pps.planning_problem_dict.values():
                pp == pp, hash(pp), pp.goal == pp.goal, hash(pp.goal)  # noqa
        elif w == "states":
            for o in sc.dynamic_obstacles:
                hash(o.initial_state)
                if isinstance(o.prediction, TrajectoryPrediction):
                    for s in o.prediction.trajectory.state_list:
                        s == s, hash(s), np.array(s) if op.get("array") else None  # noqa

    def _do_copy(self, op):
        w = op["what"]
        tgt = {"scenario": self.sc, "network": self.sc.lanelet_network, "pps": self.pps}[op["target"]]
        if w == "copy":
            copy.copy(tgt)
        elif w == "deepcopy":
            c = copy.deepcopy(tgt)
            if op.get("mutate_copy"):
                _scribble(c)
                self.probe("deep-copy-worked-on-in-place")
        elif w == "pickle":
            c = pickle.loads(pickle.dumps(tgt))
            if op.get("mutate_copy"):
                _scribble(c)

    def _do_render(self, op):
        import matplotlib.pyplot as plt

        from commonroad.visualization.mp_renderer import MPRenderer

        if op.get("focus") is not None:
            ob = self._ob(op["focus"])
            try:
                rnd = MPRenderer(plot_limits=[-20, 20, -20, 20], focus_obstacle=ob)
                for t in op["times"]:  # an animation: the same renderer draws consecutive frames
                    rnd.draw_params.time_begin = t
                    rnd.draw_params.time_end = t + 2
                    self.sc.draw(rnd)
                    rnd.render()
                    rnd.clear()
                self.probe("render-animation-with-focus-obstacle")
            finally:
                plt.close("all")
            return
        try:
            rnd = MPRenderer()
            if op.get("time_begin") is not None:
                rnd.draw_params.time_begin = op["time_begin"]
                rnd.draw_params.time_end = op["time_begin"] + op.get("span", 2)
            for path, val in (op.get("flags") or {}).items():
                obj = rnd.draw_params
                parts = path.split(".")
                for part in parts[:-1]:
                    obj = getattr(obj, part)
                setattr(obj, parts[-1], val)
                self.probe("render-flag:" + parts[-1])
            if op["what"] in ("scenario", "both"):
                self.sc.draw(rnd)
            if op["what"] in ("pps", "both"):
                self.pps.draw(rnd)
            if op["what"] == "obstacles":
                for o in self.sc.obstacles:
                    o.draw(rnd)
            rnd.render()
        finally:
            plt.close("all")

    def _do_export(self, op):
        fmt = op["fmt"]
        fault = op.get("fault") or {}
        rel = ("missing/" if "nodir" in fault else "") + f"out{op.get('n', 0)}" + FMT[fmt].value
        if "nodir" in fault:
            self.faults["F-nodir"] += 1
        if "ioerr" in fault:
            self.seams.open_shim.arm(fault["ioerr"])
            self.faults["F-ioerr"] += 1
        try:
            if op.get("persistent"):
                # an exporter object that lives as long as the scenario and is used again and again (also after a
                # refused export): every file it writes is the export of the unchanged scenario
                if not hasattr(self, "pwriters"):
                    self.pwriters = {}
                if fmt in self.pwriters:
                    self.probe("long-lived-writer-used-again")
                else:
                    self.pwriters[fmt] = CommonRoadFileWriter(self.sc, self.pps, decimal_precision=8,
                                                              file_format=FMT[fmt])
                w = self.pwriters[fmt]
                w.write_to_file(os.path.join(self.dir, rel), OverwriteExistingFile.ALWAYS)
                base = self.base_export[fmt]
                if base[0] == "ok":
                    with open(os.path.join(self.dir, rel), "rb") as fh:
                        now = normalise(fmt, fh.read())
                    if now != base[1]:
                        raise Violation(f"C18/export-differs[{fmt}]/export[long-lived writer]",
                                        f"the {fmt} file written by a long-lived writer object differs from the export "
                                        f"taken before any operation ({len(base[1])} vs {len(now)} bytes, date aside) "
                                        f"although only read-only operations ran")
                return
            w = CommonRoadFileWriter(self.sc, self.pps, decimal_precision=op.get("prec", 4), file_format=FMT[fmt])
            if op.get("method") == "scenario":
                w.write_scenario_to_file(os.path.join(self.dir, rel), OverwriteExistingFile.ALWAYS)
            else:
                w.write_to_file(os.path.join(self.dir, rel), OverwriteExistingFile.ALWAYS, bool(op.get("validate")))
        finally:
            self.seams.open_shim.armed = None

    def finish(self):
        for fmt in ("xml", "pb"):
            self._check_export({"op": "finish"}, fmt)


# ------------------------------------------------------------------ clients
def _inspector(rng, run, cfg):
    sc, pps = run.sc, run.pps
    kinds = cfg["op_kinds"]
    n_render = 0
    n_exp = 0
    while True:
        k = rng.pick(kinds)
        obs = [o.obstacle_id for o in sc.obstacles]
        lan = [la.lanelet_id for la in sc.lanelet_network.lanelets]
        op = None
        if k == "q_obstacle" and obs:
            oid = rng.pick(obs)
            o = run._ob(oid)
            what = rng.pick(["occupancy", "occupancy", "state", "signal", "occupancy_set", "final_time_step"])
            if rng.chance(cfg["p_bad"]):
                run.faults["F-badquery"] += 1
                op = {"op": k, "id": oid, "what": what, "t": rng.choice([-3, 10 ** 6, 57])}
            else:
                op = {"op": k, "id": oid, "what": what, "t": rng.randint(0, 9)}
        elif k == "q_scenario":
            what = rng.pick(["occupancies", "states", "by_role_type", "by_position", "by_id", "generate_id_on_copy", "str"])
            op = {"op": k, "what": what, "t": rng.randint(0, 8)}
            if what in ("occupancies", "by_role_type") and rng.chance(0.5):
                op["role"] = rng.pick(["STATIC", "DYNAMIC", "ENVIRONMENT", "Phantom"])
            if what == "by_role_type" and rng.chance(0.5):
                op["type"] = rng.pick(gen.OBST_TYPES)
            if what == "by_position":
                op["box"] = [[-100.0, rng.uniform(-50, 100)], [-100.0, rng.uniform(-50, 100)]]
                op["roles"] = rng.subset(["STATIC", "DYNAMIC", "ENVIRONMENT", "Phantom"], 0.6, at_least=1)
            if what == "by_id":
                if rng.chance(cfg["p_bad"]) or not obs:
                    run.faults["F-badquery"] += 1
                    op["id"] = 99999
                else:
                    op["id"] = rng.pick(obs)
        elif k == "q_network" and lan:
            what = rng.pick(["by_position", "by_shape", "distance", "interpolate", "polygon", "successors",
                             "merge_successors", "proximity", "map_obstacles", "most_likely", "contains", "orientation",
                             "light", "lookups", "sign_interpreter", "merge_pair", "registry", "merge_predecessors",
                             "by_id", "derive", "trajectories"])
            op = {"op": k, "what": what, "lanelet": rng.pick(lan), "t": rng.randint(0, 20),
                  "range": rng.uniform(1.0, 60.0), "s": rng.uniform(0.0, 1.0),
                  "pts": [[rng.uniform(-60, 60), rng.uniform(-60, 60)] for _ in range(rng.randint(2, 4))]}
            if what in ("by_shape", "derive"):
                op["shape"] = gen._place(gen.gen_shape(rng, ("rect", "circ", "poly"), 3.0),
                                         [rng.uniform(-40, 40), rng.uniform(-40, 40)], rng.uniform(-3, 3))
            if what == "interpolate" and rng.chance(cfg["p_bad"]):
                run.faults["F-badquery"] += 1
                op["s"] = 1.5
        elif k == "goal" and pps.planning_problem_dict:
            pid = rng.pick(sorted(pps.planning_problem_dict))
            r = rng.random()
            t = rng.randint(0, 30)
            pos = [rng.uniform(-60, 60), rng.uniform(-60, 60)]
            if r < 0.3:
                st = {"cls": "ks", "t": t, "pos": pos, "ori": rng.uniform(-3, 3), "vel": rng.uniform(0, 12), "steer": 0.0}
            elif r < 0.55:
                st = {"cls": "pm", "t": t, "pos": pos, "vel": rng.uniform(-5, 5), "vy": rng.uniform(-5, 5)}
            elif r < 0.75:
                st = {"cls": "initial", "t": t, "pos": pos, "ori": rng.uniform(-3, 3), "vel": rng.uniform(0, 12),
                      "acc": 0.0, "yaw": 0.0, "slip": 0.0}
            else:
                run.faults["F-badquery"] += 1
                st = {"cls": "custom", "t": t, "extra": {"velocity": 1.0}}  # lacks what the goal constrains
            if rng.chance(0.6):
                op = {"op": k, "pp": pid, "what": "is_reached", "state": st}
            else:
                states = [dict(st, t=t + i, pos=[pos[0] + i, pos[1]]) for i in range(rng.randint(1, 4))]
                op = {"op": k, "pp": pid, "what": "goal_reached", "states": states}
        elif k == "compare":
            op = {"op": k, "what": rng.pick(["scenario", "network", "pps", "obstacles", "lanelets", "problems", "states",
                                                "scenario_id"]),
                  "array": rng.chance(0.3)}
        elif k == "copy":
            op = {"op": k, "what": rng.pick(["copy", "deepcopy", "pickle"]),
                  "target": rng.pick(["scenario", "network", "pps"]), "mutate_copy": rng.chance(0.3)}
        elif k == "render" and n_render < cfg["max_render"]:
            n_render += 1
            op = {"op": k, "what": rng.pick(["scenario", "both", "pps", "obstacles"]),
                  "time_begin": rng.choice([None, 0, 1, 3, 50])}
            if rng.chance(0.7):
                op["flags"] = {f: rng.chance(0.7) for f in rng.subset(RENDER_FLAGS, 0.25, at_least=1)}
            dyn = [o.obstacle_id for o in sc.dynamic_obstacles]
            if dyn and rng.chance(0.3):
                t0 = rng.randint(0, 3)
                op = {"op": k, "what": "scenario", "focus": rng.pick(dyn), "times": [t0, t0 + 1, t0 + 2][: rng.randint(2, 3)]}
        elif k == "export" and n_exp < max(cfg["max_export"], 4):
            n_exp += 1
            fmt = rng.pick(["xml", "pb"])
            op = {"op": k, "fmt": fmt, "n": n_exp, "prec": rng.randint(1, 10), "validate": rng.chance(0.3),
                  "method": rng.pick(["full", "full", "scenario"]), "persistent": rng.chance(0.35)}
            r = rng.random()
            if r < cfg["p_bad"] or (op["persistent"] and r < 0.3):
                # (long-lived writers meet refused exports often: what a failed export leaves in the writer shows in
                # its NEXT export)
                op["fault"] = {"nodir": True}
            elif r < 2 * cfg["p_bad"] and fmt == "pb":
                op["fault"] = {"ioerr": rng.pick([0, 10, 500])}
        if op is None:
            yield None
            continue
        if rng.chance(cfg["p_export_check"]):
            op["export_after"] = rng.pick(["xml", "pb"])
        yield op


RENDER_FLAGS = [
    "lanelet_network.intersection.draw_intersections", "lanelet_network.intersection.draw_successors",
    "lanelet_network.intersection.draw_incoming_lanelets", "lanelet_network.intersection.draw_crossings",
    "lanelet_network.intersection.show_label", "lanelet_network.lanelet.draw_border_vertices",
    "lanelet_network.lanelet.show_label", "lanelet_network.lanelet.draw_stop_line",
    "lanelet_network.lanelet.draw_line_markings", "lanelet_network.lanelet.draw_center_bound",
    "lanelet_network.lanelet.draw_start_and_direction", "lanelet_network.lanelet.fill_lanelet",
    "lanelet_network.lanelet.unique_colors", "lanelet_network.traffic_sign.draw_traffic_signs",
    "lanelet_network.traffic_sign.show_label", "lanelet_network.traffic_light.draw_traffic_lights",
    "dynamic_obstacle.draw_icon", "dynamic_obstacle.show_label", "dynamic_obstacle.draw_signals",
    "dynamic_obstacle.draw_initial_state", "dynamic_obstacle.draw_direction", "dynamic_obstacle.draw_bounding_box",
    "dynamic_obstacle.trajectory.draw_trajectory", "dynamic_obstacle.trajectory.draw_continuous",
    "dynamic_obstacle.occupancy.draw_occupancies", "dynamic_obstacle.history.draw_history",
    "static_obstacle.occupancy.draw_occupancies", "planning_problem_set.planning_problem.goal_region.draw_occupancies",
]

OP_KINDS = ["q_obstacle", "q_scenario", "q_network", "goal", "compare", "copy", "render", "export"]


class C18(Property):
    id = "C18"
    title = "Read-only operations do not change scenarios or planning problems"
    # every run (and every replay) executes in a process that never ran anything before: state that a read-only
    # operation leaves in a process-wide default object (a shared default argument, a class attribute) would otherwise
    # be there already when the next run - or the replay of this one - takes its baseline
    needs_zygote = True
    isolate_runs = True
    zygote_warmup = ["props.c18_readonly:warm_matplotlib"]
    tiers = {"quick": {"runs": 640, "wall": 270, "chunk": 5}, "thorough": {"runs": 20000, "wall": 1700, "chunk": 10}}
    expected_probes = ["source-direct", "source-xml", "source-pb", "feature:custom-state-without-orientation",
                       "feature:defaultdict-goal-table", "feature:pm-trajectory", "feature:uncertain-state",
                       "feature:shape-group", "feature:set-based", "export-compared-xml", "export-compared-pb",
                       "cell:q_obstaclexcustom-state-without-orientation", "cell:exportxdefaultdict-goal-table",
                       "cell:renderxcustom-state-without-orientation", "op-raised:goal", "op-raised:export", "render-flag:draw_intersections", "render-flag:draw_icon",
                       "render-animation-with-focus-obstacle", "feature:tiny-coordinates",
                       "feature:scenario-id-with-several-prediction-ids", "deep-copy-worked-on-in-place",
                       "feature:closed-course", "feature:sign-or-light-without-position",
                       "long-lived-writer-used-again", "feature:map-without-lanelets",
                       "map-was-transformed-before"]
    assumptions = [
        "the snapshot reads public accessors only and never touches derived data whose computation is itself one of "
        "the side effects hunted (occupancy_set, distance, shapely_object)",
        "caches that are not observable through the public API (memoised distances, polygons, occupancy sets) may be "
        "filled by inspections; only observable attributes, container types and export results are compared",
        "exceptions raised by inspections are tolerated (totality of the operations is C04/C08/C19 territory)",
        "exports used for the before/after comparison run in a forked child so that exporting is not itself perturbing "
        "the run; content is compared modulo the date stamp",
    ]

    def gen_config(self, rng):
        return {"steps": rng.randint(4, 22), "n_inspectors": rng.randint(1, 3),
                "op_kinds": sorted(rng.subset(OP_KINDS, 0.65, at_least=2)),
                "source": rng.weighted(["direct", "xml", "pb"], [2, 1, 1]), "assignment": rng.chance(0.4),
                "p_bad": rng.pick([0.0, 0.1, 0.25]), "max_render": rng.pick([0, 1, 2, 3]),
                "max_export": rng.pick([1, 3, 6]), "p_export_check": rng.pick([0.0, 0.15, 0.4]),
                "pre_moved": [rng.uniform(-20, 20), rng.uniform(-20, 20), rng.uniform(-3, 3)] if rng.chance(0.25)
                else None}

    def gen_universe(self, rng, cfg):
        ids = gen.IdAlloc(rng, 1, 400, zero=0.1)
        net = gen.gen_network(rng, rows=rng.randint(1, 2), cols=rng.randint(1, 3), ids=ids, loops=0.3, many_pts=0.15)
        net.pop("_geom", None)
        obstacles, features = [], set()
        for el in net["signs"] + net["lights"]:
            if rng.chance(0.12):
                el["pos"] = None  # no position of its own: writers and renderer support that
                features.add("sign-or-light-without-position")
        by = {la["id"]: la for la in net["lanelets"]}

        def reaches_itself(start):
            seen, todo = set(), list(by[start].get("succ", []))
            while todo:
                x = todo.pop()
                if x == start:
                    return True
                if x in by and x not in seen:
                    seen.add(x)
                    todo.extend(by[x].get("succ", []))
            return False
        if any(reaches_itself(i) for i in by):
            features.add("closed-course")
        # (with lanelet assignment switched on: denser traffic, so that neighbouring lanelets carry different obstacles
        # at the same time step)
        for _ in range(rng.randint(3, 7) if cfg.get("assignment") else rng.randint(1, 5)):
            role = rng.weighted(["static", "dynamic", "dynamic_nopred", "dynamic_set", "env", "phantom"],
                                [2, 6, 1, 1.5, 1, 1])
            kinds = ("rect", "circ", "poly", "group") if rng.chance(0.2) else ("rect", "circ", "poly")
            ob = gen.gen_obstacle(rng, ids.take(), net, role=role, shape_kinds=kinds, interval_steps=0.3, shuffle_occ=0.4,
                                  long_horizon=0.15)
            if ob.get("shape", {}).get("t") == "group":
                features.add("shape-group")
            if role in ("dynamic_set", "phantom"):
                features.add("set-based")
            if role == "dynamic" and ob["pred"] and ob["pred"]["kind"] == "traj":
                r = rng.random()
                sts = ob["pred"]["states"]
                if r < 0.25:
                    # custom states that carry velocity / velocity_y but no orientation attribute
                    for s in sts:
                        th = s.pop("ori")
                        for kx in ("steer", "yaw", "slip", "acc"):
                            s.pop(kx, None)
                        s["cls"] = "custom"
                        s["extra"] = {"velocity_y": s["vel"] * math.sin(th)}
                        s["vel"] = s["vel"] * math.cos(th)
                    features.add("custom-state-without-orientation")
                elif r < 0.45:
                    for s in sts:
                        th = s.pop("ori")
                        for kx in ("steer", "yaw", "slip", "acc"):
                            s.pop(kx, None)
                        s["cls"] = "pm"
                        s["vy"] = s["vel"] * math.sin(th)
                        s["vel"] = s["vel"] * math.cos(th)
                    features.add("pm-trajectory")
                elif r < 0.6:
                    for s in sts:
                        s["pos"] = gen._place({"t": "rect", "l": 1.0, "w": 0.5}, s["pos"], 0.0)
                        s["ori"] = {"aiv": [s["ori"] - 0.1, s["ori"] + 0.1]} if abs(s["ori"]) < 3.0 else s["ori"]
                        s["cls"] = "custom"
                        for kx in ("steer", "yaw", "slip", "acc"):
                            s.pop(kx, None)
                    features.add("uncertain-state")
            obstacles.append(ob)
        if rng.chance(0.25):
            # a map whose origin lies (almost) on a lanelet vertex: coordinates that are tiny but not zero, and signed
            # zeros - values that "tidy-up" code likes to normalise in place
            la0 = rng.pick(net["lanelets"])
            v0 = rng.pick(la0["left"] + la0["right"])
            dx, dy = -v0[0] + rng.choice([3e-9, -7e-10, 0.0]), -v0[1] + rng.choice([-2e-9, 5e-10, -0.0])
            features.add("tiny-coordinates")

            def shift(node, key=None):
                if isinstance(node, dict):
                    if node.get("t") == "poly" and "v" in node:
                        return dict(node, v=[[x + dx, y + dy] for x, y in node["v"]])
                    return {k: shift(v, k) for k, v in node.items()}
                if isinstance(node, list):
                    if key in ("left", "center", "right") and node and isinstance(node[0], list):
                        return [[x + dx, y + dy] for x, y in node]
                    if key in ("pos", "c", "start", "end") and len(node) == 2 and all(isinstance(x, float) for x in node):
                        return [node[0] + dx, node[1] + dy]
                    return [shift(v, key) for v in node]
                return node
            net = shift(net)
            obstacles = shift(obstacles)
        if rng.chance(0.5):
            net["info"] = {"map_id": "DEU_RO-1", "author": "A. Mapper", "affiliation": "verif", "source": "drawn",
                           "licence_name": "none"}
        no_map = rng.chance(0.07)
        pps = [gen.gen_planning_problem(rng, ids.take(), net, with_lanelet_goal=not no_map)
               for _ in range(rng.randint(1, 2))]
        if no_map:
            # a scenario without lanelets (obstacles and planning problems only): the smallest legal map
            net = {"lanelets": [], "signs": [], "lights": [], "intersections": []}
            features.add("map-without-lanelets")
        for pp in pps:
            if pp["goal_lanelets"] is not None:
                pp["goal_lanelets"] = {str(k): v for k, v in pp["goal_lanelets"].items()}
        panel = []
        for la in net["lanelets"][:4]:
            panel.append(gen.lanelet_point(rng, la))
        panel.append([777.0, -777.0])
        sid = {"country": "DEU", "map": "RO", "map_id": 1}
        r = rng.random()
        if r < 0.2:
            # cooperative benchmark ids enumerate several predictions: C-DEU_RO-1_2_I-1-2
            sid.update(coop=True, conf=2, beh="I", pred=[1, 2])
            features.add("scenario-id-with-several-prediction-ids")
        elif r < 0.3:
            sid.update(conf=3, beh="S", pred=[4])
        spec = {"dt": 0.1, "network": net, "obstacles": obstacles, "tags": ["URBAN"], "sid": sid}
        return {"scenario": spec, "pps": pps, "panel": panel, "features": sorted(features)}

    def new_run(self, universe, cfg):
        return Run(universe, cfg)

    def make_clients(self, rng, cfg, run):
        return [Client(f"inspector{j}", 1.0, _inspector(rng.sub("i", j), run, cfg)) for j in range(cfg["n_inspectors"])]

    def prune_universe(self, universe, trace):
        sc = universe["scenario"]
        for i in range(len(sc["obstacles"])):
            yield dict(universe, scenario=dict(sc, obstacles=sc["obstacles"][:i] + sc["obstacles"][i + 1:]))
        if len(universe["pps"]) > 1:
            for i in range(len(universe["pps"])):
                yield dict(universe, pps=universe["pps"][:i] + universe["pps"][i + 1:])
        net = sc["network"]
        for part in ("intersections", "signs", "lights"):
            if net.get(part):
                n2 = dict(net, **{part: []})
                if part != "intersections":
                    n2["lanelets"] = [dict(la, **{part: [], "stop": None}) for la in net["lanelets"]]
                yield dict(universe, scenario=dict(sc, network=n2))

    def simplify_op(self, op):
        if op.get("export_after"):
            yield {k: v for k, v in op.items() if k != "export_after"}
        if op["op"] == "export":
            if op.get("fault"):
                yield {k: v for k, v in op.items() if k != "fault"}
            if op.get("validate"):
                yield dict(op, validate=False)
            if op.get("method") != "full":
                yield dict(op, method="full")
        if op["op"] == "q_obstacle" and op["t"] != 1:
            yield dict(op, t=1)

    def describe_sim_time(self, sim_time, steps):
        return {"unit": "logical steps (one public API call each); the exports read a simulated clock that is not "
                        "advanced in this property", "steps": steps}

    def components(self):
        return {"real": ["commonroad scenario / obstacle / prediction / lanelet network / planning problem classes",
                         "GoalRegion.is_reached", "__eq__ / __hash__", "copy / pickle", "MPRenderer on matplotlib Agg",
                         "XML and protobuf writers (+ readers for file-sourced scenarios)", "tmpfs scratch directory",
                         "os.fork (isolated exports)"],
                "stub": ["writers' datetime (fixed simulated clock)", "file_writer_protobuf.open (torn-write injection)"]}


PROPERTY = C18()
