"""C10 — removing or cutting out network elements leaves no dangling references.

Histories of removals (network level and scenario level, single and list form, with and without
referenced elements) and cut-outs (by shape, by lanelet types, by lanelet list) with restart faults,
in lock-step with a reference graph model.
"""
import copy
import pickle

import numpy as np

from commonroad.scenario.lanelet import LaneletNetwork, LaneletType
from commonroad.scenario.scenario import Scenario

from crkit import build, gen, geom
from simkit.engine import Client, HarnessError, Property, RunBase, Violation


def _new_scenario():
    return Scenario(dt=0.1, scenario_id=build.build_scenario_id({"country": "DEU"}), author="sim", tags=set(),
                    affiliation="verif", source="generated")


# ------------------------------------------------------------------ abstraction of the real network
def _fp_lanelet(la):
    sl = la.stop_line
    return [np.asarray(la.left_vertices).tolist(), np.asarray(la.center_vertices).tolist(),
            np.asarray(la.right_vertices).tolist(), la.line_marking_left_vertices.name,
            la.line_marking_right_vertices.name, sorted(t.name for t in la.lanelet_type),
            sorted(u.name for u in la.user_one_way), sorted(u.name for u in la.user_bidirectional),
            None if sl is None else [np.asarray(sl.start).tolist(), np.asarray(sl.end).tolist(), sl.line_marking.name]]


def _fp_sign(s):
    return [[(e.traffic_sign_element_id.name, list(e.additional_values)) for e in s.traffic_sign_elements],
            np.asarray(s.position).tolist(), bool(s.virtual)]


def _fp_light(lt):
    c = lt.traffic_light_cycle
    return [np.asarray(lt.position).tolist(),
            None if c is None else [[(e.state.name, e.duration) for e in c.cycle_elements], c.time_offset],
            lt.direction.name, bool(lt.active)]


def _set(x):
    # "no reference" may be None or an empty set: both denote the same thing
    return set() if x is None else set(x)


def sut_abstract(net):
    L, S, T, I = {}, {}, {}, {}
    for la in net.lanelets:
        sl = la.stop_line
        L[la.lanelet_id] = {
            "pred": set(la.predecessor), "succ": set(la.successor),
            "adjl": la.adj_left, "adjl_same": la.adj_left_same_direction if la.adj_left is not None else None,
            "adjr": la.adj_right, "adjr_same": la.adj_right_same_direction if la.adj_right is not None else None,
            "signs": set(la.traffic_signs), "lights": set(la.traffic_lights),
            "stop": None if sl is None else {"signs": _set(sl.traffic_sign_ref), "lights": _set(sl.traffic_light_ref)},
            "fp": _fp_lanelet(la)}
    for s in net.traffic_signs:
        S[s.traffic_sign_id] = {"fp": _fp_sign(s)}
    for lt in net.traffic_lights:
        T[lt.traffic_light_id] = {"fp": _fp_light(lt)}
    for it in net.intersections:
        I[it.intersection_id] = {
            # public views derived from the incoming sets: lanelet id -> incoming element / intersection
            "map_incoming_lanelets": set(it.map_incoming_lanelets.keys()),
            "incomings": {inc.incoming_id: {"in": set(inc.incoming_lanelets), "right": set(inc.successors_right),
                                            "straight": set(inc.successors_straight), "left": set(inc.successors_left)}
                          for inc in it.incomings},
            "crossings": set(it.crossings)}
    return {"L": L, "S": S, "T": T, "I": I}


def dangling(a):
    """all id-valued attributes that name an element which is not in the network"""
    out = []
    L, S, T = set(a["L"]), set(a["S"]), set(a["T"])
    for i, la in a["L"].items():
        for k in ("pred", "succ"):
            for x in la[k] - L:
                out.append(f"lanelet {i}.{k} -> {x}")
        for k in ("adjl", "adjr"):
            if la[k] is not None and la[k] not in L:
                out.append(f"lanelet {i}.{k} -> {la[k]}")
        for x in la["signs"] - S:
            out.append(f"lanelet {i}.traffic_signs -> {x}")
        for x in la["lights"] - T:
            out.append(f"lanelet {i}.traffic_lights -> {x}")
        if la["stop"] is not None:
            for x in (la["stop"]["signs"] or set()) - S:
                out.append(f"lanelet {i}.stop_line.traffic_sign_ref -> {x}")
            for x in (la["stop"]["lights"] or set()) - T:
                out.append(f"lanelet {i}.stop_line.traffic_light_ref -> {x}")
    for i, it in a["I"].items():
        for j, inc in it["incomings"].items():
            for k in ("in", "right", "straight", "left"):
                for x in inc[k] - L:
                    out.append(f"intersection {i} incoming {j}.{k} -> {x}")
        for x in it["crossings"] - L:
            out.append(f"intersection {i}.crossings -> {x}")
        for x in it.get("map_incoming_lanelets", set()) - L:
            out.append(f"intersection {i}.map_incoming_lanelets -> {x}")

    return out


def first_diff(got, exp):
    for part, name in (("L", "lanelet"), ("S", "traffic sign"), ("T", "traffic light"), ("I", "intersection")):
        g, e = got[part], exp[part]
        if set(g) != set(e):
            return f"{name} set is {sorted(g)}, expected {sorted(e)}"
        for i in sorted(g):
            for k in g[i]:
                if g[i][k] != e[i][k]:
                    if k == "fp":
                        return f"content of {name} {i} changed"
                    return f"{name} {i}.{k} is {_show(g[i][k])}, expected {_show(e[i][k])}"
    return None


def _show(x):
    if isinstance(x, set):
        return sorted(x)
    if isinstance(x, dict):
        return {k: _show(v) for k, v in x.items()}
    return x


# ------------------------------------------------------------------ the reference graph model
class Model:
    def __init__(self, a):
        self.a = a

    def clone(self):
        return Model(copy.deepcopy(self.a))

    def remove_lanelet(self, x):
        a = self.a
        a["L"].pop(x)
        for la in a["L"].values():
            la["pred"].discard(x)
            la["succ"].discard(x)
            if la["adjl"] == x:
                la["adjl"], la["adjl_same"] = None, None
            if la["adjr"] == x:
                la["adjr"], la["adjr_same"] = None, None
        for it in a["I"].values():
            for inc in it["incomings"].values():
                for k in ("in", "right", "straight", "left"):
                    inc[k].discard(x)
            it["crossings"].discard(x)
            it["map_incoming_lanelets"].discard(x)

    def remove_sign(self, x):
        a = self.a
        a["S"].pop(x)
        for la in a["L"].values():
            la["signs"].discard(x)
            if la["stop"] is not None:
                la["stop"]["signs"].discard(x)

    def remove_light(self, x):
        a = self.a
        a["T"].pop(x)
        for la in a["L"].values():
            la["lights"].discard(x)
            if la["stop"] is not None:
                la["stop"]["lights"].discard(x)

    def remove_intersection(self, x):
        self.a["I"].pop(x)

    def hanging(self, lanelet_ids):
        rem = set(lanelet_ids)
        sd, ld, ss, ls = set(), set(), set(), set()
        for i, la in self.a["L"].items():
            if i in rem:
                sd |= la["signs"]
                ld |= la["lights"]
            else:
                ss |= la["signs"]
                ls |= la["lights"]
        return sorted((sd - ss) & set(self.a["S"])), sorted((ld - ls) & set(self.a["T"]))

    def restrict(self, keep, keep_signs_lights=True):
        """cut-out: restriction to the selected lanelets; signs/lights kept iff a selected lanelet references them"""
        a = self.a
        for x in sorted(set(a["L"]) - set(keep)):
            self.remove_lanelet(x)
        if keep_signs_lights:
            used_s = set().union(*[la["signs"] for la in a["L"].values()]) if a["L"] else set()
            used_t = set().union(*[la["lights"] for la in a["L"].values()]) if a["L"] else set()
        else:
            used_s, used_t = set(), set()
        for s in sorted(set(a["S"]) - used_s):
            self.remove_sign(s)
        for t in sorted(set(a["T"]) - used_t):
            self.remove_light(t)


class Run(RunBase):
    def __init__(self, universe, cfg):
        super().__init__(universe, cfg)
        self.sc = build.build_scenario({"network": universe["network"], "sid": {"country": "DEU"}})
        self.m = Model(sut_abstract(self.sc.lanelet_network))
        if dangling(self.m.a):
            raise HarnessError(f"generated network is not well formed: {dangling(self.m.a)[:3]}")
        self.last = "start"
        # an independent network built from the same spec that nobody operates on (state shared by accident between
        # instances would change it)
        self.idle = build.build_network(universe["network"])
        self.idle_abs = sut_abstract(self.idle)
        self.shadow = None  # (scenario, model) of the sibling: the source of a cut-out, or the original of a copy

    def _swap(self):
        cur = (self.sc, self.m)
        self.sc, self.m = self.shadow
        self.shadow = cur

    def _check_shadow(self):
        """A cut-out (or copy) and its source are independent networks: operating on one must leave the other
        exactly as it was."""
        if self.shadow is None:
            return
        sc, m = self.shadow
        got = sut_abstract(sc.lanelet_network)
        d = dangling(got)
        diff = first_diff(got, m.a)
        if d or diff:
            raise Violation(f"C10/sibling-affected/{self.last}",
                            f"after {self.last} on one network, the OTHER network (source of the cut-out / original of "
                            f"the copy) changed: {diff or d[:3]}")

    @property
    def net(self):
        return self.sc.lanelet_network

    def enabled(self, op):
        a = self.m.a
        k = op["op"]
        part = {"lanelet": "L", "sign": "S", "light": "T", "intersection": "I"}
        if k == "sc_remove_intruder":
            return len(op["ids"]) > 0 and len(set(op["ids"])) == len(op["ids"]) and \
                all(i in a[part[op.get("kind", "lanelet")]] for i in op["ids"])
        if k in ("cleanup", "lookups"):
            return True
        if k == "edit":
            if op["a"] not in a["L"]:
                return False
            if op["how"] in ("add_successor", "add_predecessor", "remove_successor", "remove_predecessor"):
                return op["b"] in a["L"]
            return op["b"] in a["S" if "sign" in op["how"] else "T"]
        if k == "net_remove_absent":
            return op["id"] not in a[part[op["kind"]]]
        if k in ("net_remove", "sc_remove"):
            ids = op["ids"]
            return len(ids) > 0 and len(set(ids)) == len(ids) and all(i in a[part[op["kind"]]] for i in ids)
        if k == "cut_shape":
            return op.get("lanelet") is None or op["lanelet"] in a["L"]
        if k == "cut_list":
            return len(op["ids"]) > 0 and all(i in a["L"] for i in op["ids"])
        if k == "swap":
            return self.shadow is not None
        return k in ("restart", "check")

    # ------------------------------------------------------------------ invariants
    def _check(self, op, lenient_intersections=False):
        got = sut_abstract(self.net)
        d = dangling(got)
        if d:
            raise Violation(f"C10/dangling/{self.last}",
                            f"after {self.last}: {len(d)} reference(s) to elements that are not in the network, e.g. "
                            f"{d[:4]}", {"dangling": d})
        # the network-level public view lanelet id -> intersection must list exactly the incoming lanelets
        view = self.net.map_inc_lanelets_to_intersections
        all_in = set()
        for it in got["I"].values():
            for inc in it["incomings"].values():
                all_in |= inc["in"]
        bad = sorted(set(view) ^ all_in) + sorted(l for l, x in view.items()
                                                   if not any(l in inc["in"] for inc in
                                                              got["I"].get(x.intersection_id, {"incomings": {}})["incomings"].values()))
        if bad:
            raise Violation(f"C10/dangling/{self.last}",
                            f"after {self.last}: LaneletNetwork.map_inc_lanelets_to_intersections is inconsistent with "
                            f"the incoming sets for lanelets {bad[:5]}")
        exp = self.m.a
        if lenient_intersections:
            # which emptied incomings / intersections a cut-out drops is not prescribed: every one present must be
            # the restriction of an old one
            for i, it in got["I"].items():
                if i not in exp["I"]:
                    raise Violation(f"C10/invented-intersection/{self.last}", f"cut-out has an intersection {i} "
                                                                              f"the source network did not have")
                for j, inc in it["incomings"].items():
                    e = exp["I"][i]["incomings"].get(j)
                    if e is None or any(inc[k] != e[k] for k in ("in", "right", "straight", "left")):
                        raise Violation(f"C10/intersection-relations-changed/{self.last}",
                                        f"intersection {i} incoming {j} is {_show(inc)}, the restriction of the source "
                                        f"to the remaining lanelets is {_show(e)}")
                if it["crossings"] != exp["I"][i]["crossings"]:
                    raise Violation(f"C10/intersection-relations-changed/{self.last}",
                                    f"intersection {i} crossings are {sorted(it['crossings'])}, expected "
                                    f"{sorted(exp['I'][i]['crossings'])}")
            exp["I"] = copy.deepcopy(got["I"])
        diff = first_diff(got, exp)
        if diff:
            raise Violation(f"C10/model-mismatch/{self.last}", f"after {self.last}: {diff}")

    def apply(self, op):
        out = getattr(self, "_op_" + op["op"])(op)
        if op["op"] != "swap":
            self._check_shadow()
        a = self.m.a
        self.note_state([sorted(a["L"]), sorted(a["S"]), sorted(a["T"]), sorted(a["I"])])
        return out

    def finish(self):
        d = first_diff(sut_abstract(self.idle), self.idle_abs)
        if d:
            raise Violation("C10/independent-network-affected/finish",
                            f"a second network built from the same specification and never operated on changed: {d}")

    def _op_check(self, op):
        self._check(op)
        return "ok"

    def _op_swap(self, op):
        self._swap()
        self.probe("continued-on-the-other-network")
        return "ok"

    def _probe_removal(self, kind, ids):
        a = self.m.a
        if kind == "lanelet":
            rem = set(ids)
            for i, la in a["L"].items():
                if i in rem:
                    continue
                if la["pred"] & rem or la["succ"] & rem:
                    self.probe("removed-lanelet-was-pred-or-succ-of-survivor")
                if la["adjl"] in rem or la["adjr"] in rem:
                    self.probe("removed-lanelet-was-adjacent-to-survivor")
            for it in a["I"].values():
                allrefs = set(it["crossings"])
                for inc in it["incomings"].values():
                    allrefs |= inc["in"] | inc["right"] | inc["straight"] | inc["left"]
                if allrefs & rem and allrefs - rem:
                    self.probe("intersection-spans-removed-and-kept-lanelets")
        if kind in ("sign", "light"):
            key = "signs" if kind == "sign" else "lights"
            for la in a["L"].values():
                if la["stop"] is not None and la["stop"][key] and set(ids) & la["stop"][key]:
                    self.probe("stop-line-reference-cleaned")

    def _op_net_remove(self, op):
        kind = op["kind"]
        x = op["ids"][0]
        self.last = f"LaneletNetwork.remove_{kind}"
        self._probe_removal(kind, [x])
        fn = {"lanelet": self.net.remove_lanelet, "sign": self.net.remove_traffic_sign,
              "light": self.net.remove_traffic_light, "intersection": self.net.remove_intersection}[kind]
        try:
            xa = np.int64(x) if op.get("np_id") else x  # ids often come out of numpy arrays
            if kind == "lanelet" and op.get("rtree") is False and op.get("positional"):
                fn(xa, False)  # the documented second positional parameter
            elif kind == "lanelet" and op.get("rtree") is False:
                fn(xa, rtree=False)  # the spatial index is not C10's business; references must be cleaned all the same
            else:
                fn(xa)
        except Exception as e:  # noqa
            raise Violation(f"C10/removal-raised/{self.last}", f"{self.last}({x}) raised {type(e).__name__}: {e}")
        {"lanelet": self.m.remove_lanelet, "sign": self.m.remove_sign, "light": self.m.remove_light,
         "intersection": self.m.remove_intersection}[kind](x)
        self._check(op)
        return "ok"

    def _op_net_remove_absent(self, op):
        """Network-level removal of an id that is not (or no longer) in the network is a no-op by contract."""
        kind, x = op["kind"], op["id"]
        self.last = f"LaneletNetwork.remove_{kind}[absent id]"
        self.faults["F-reject"] += 1
        fn = {"lanelet": self.net.remove_lanelet, "sign": self.net.remove_traffic_sign,
              "light": self.net.remove_traffic_light, "intersection": self.net.remove_intersection}[kind]
        try:
            fn(x)
        except Exception as e:  # noqa
            raise Violation(f"C10/removal-raised/{self.last}", f"{self.last}({x}) raised {type(e).__name__}: {e}")
        self.probe("removal-of-absent-id")
        self._check(op)
        return "ok"

    def _find(self, kind, i):
        net = self.net
        o = {"lanelet": net.find_lanelet_by_id, "sign": net.find_traffic_sign_by_id,
             "light": net.find_traffic_light_by_id, "intersection": net.find_intersection_by_id}[kind](i)
        if o is None:
            raise HarnessError(f"model says {kind} {i} is in the network, the network cannot find it")
        return o

    def _op_sc_remove(self, op):
        kind, ids, form = op["kind"], op["ids"], op.get("form", "single")
        objs = [self._find(kind, i) for i in ids]
        if op.get("as_copy"):
            objs = [copy.deepcopy(o) for o in objs]  # equal objects, not the contained ones
            self.probe("removed-by-an-equal-copy")
        arg = objs if form == "list" else objs[0]
        self._probe_removal(kind, ids)
        sc = self.sc
        if kind == "lanelet":
            ref = bool(op.get("ref", True))
            self.last = f"Scenario.remove_lanelet[{form},ref={ref}]"
            call = lambda: sc.remove_lanelet(arg, referenced_elements=ref)  # noqa
            if ref:
                signs, lights = self.m.hanging(ids)
                if signs or lights:
                    self.probe("exclusive-sign-or-light-removed-with-lanelet")
                kept_shared = False
                for i in ids:
                    la = self.m.a["L"][i]
                    if (la["signs"] - set(signs)) or (la["lights"] - set(lights)):
                        kept_shared = True
                if kept_shared:
                    self.probe("shared-sign-or-light-kept")
                for s in signs:
                    self.m.remove_sign(s)
                for t in lights:
                    self.m.remove_light(t)
            for i in ids:
                self.m.remove_lanelet(i)
        else:
            self.last = f"Scenario.remove_{kind}[{form}]"
            fn = {"sign": sc.remove_traffic_sign, "light": sc.remove_traffic_light,
                  "intersection": sc.remove_intersection}[kind]
            call = lambda: fn(arg)  # noqa
            for i in ids:
                {"sign": self.m.remove_sign, "light": self.m.remove_light,
                 "intersection": self.m.remove_intersection}[kind](i)
        try:
            call()
        except Exception as e:  # noqa
            raise Violation(f"C10/removal-raised/{self.last}", f"{self.last}({ids}) raised {type(e).__name__}: {e}")
        self._check(op)
        return "ok"

    def _op_edit(self, op):
        """The map is edited through the lanelets' public methods (a relation or a reference between elements that ARE
        in the network is added or taken away): the network stays well formed, later removals have to clean these
        relations like any other."""
        a, la = self.m.a, self._find("lanelet", op["a"])
        how = op["how"]
        self.last = f"Lanelet.{how}"
        try:
            if how in ("add_successor", "add_predecessor", "remove_successor", "remove_predecessor"):
                getattr(la, how)(op["b"])
                key = "succ" if "successor" in how else "pred"
                (a["L"][op["a"]][key].add if how.startswith("add") else a["L"][op["a"]][key].discard)(op["b"])
            elif how == "add_traffic_sign_to_lanelet":
                la.add_traffic_sign_to_lanelet(op["b"])
                a["L"][op["a"]]["signs"].add(op["b"])
            else:
                la.add_traffic_light_to_lanelet(op["b"])
                a["L"][op["a"]]["lights"].add(op["b"])
        except Exception as e:  # noqa
            raise Violation(f"C10/edit-raised/{self.last}", f"{self.last}({op['b']}) raised {type(e).__name__}: {e}")
        self.probe("map-edited:" + how)
        self._check(op)
        return "ok"

    def _op_lookups(self, op):
        """Read-only look-ups of the network (they may fill memos / reverse indices): later edits and removals must not
        be answered from what these look-ups left behind."""
        net = self.net
        self.last = "read-only look-ups"
        try:
            for x in net.traffic_signs:
                net.get_traffic_sign_referenced_lanelets(x.traffic_sign_id)
            for x in net.traffic_lights:
                net.get_traffic_lights_referenced_lanelets(x.traffic_light_id)
            net.map_inc_lanelets_to_intersections  # noqa
            for it in net.intersections:
                it.map_incoming_lanelets  # noqa
            for la in net.lanelets[:3]:
                la.find_lanelet_successors_in_range(net, 30.0)
        except Exception as e:  # noqa
            raise Violation(f"C10/lookup-raised/{self.last}", f"{self.last} raised {type(e).__name__}: {e}")
        self.probe("read-only-lookups-between-edits")
        self._check(op)
        return "ok"

    def _op_cleanup(self, op):
        """The public clean-up methods on a network that has nothing to clean: nothing changes."""
        self.last = "LaneletNetwork.cleanup_*_references"
        try:
            self.net.cleanup_lanelet_references()
            self.net.cleanup_traffic_sign_references()
            self.net.cleanup_traffic_light_references()
        except Exception as e:  # noqa
            raise Violation(f"C10/cleanup-raised/{self.last}", f"{self.last} raised {type(e).__name__}: {e}")
        self.probe("cleanup-on-a-consistent-network")
        self._check(op)
        return "ok"

    def _op_sc_remove_intruder(self, op):
        """Scenario.remove_lanelet with a list that contains a lanelet which is NOT in the network: the call may fail
        half-way.  Whatever it removed, no remaining element may refer to a removed id and nothing else may change."""
        ids = op["ids"]
        kind = op.get("kind", "lanelet")
        objs = [self._find(kind, i) for i in ids]
        if kind == "lanelet":
            intruder = build.build_lanelet({"id": 9000 + op.get("n", 0), "left": [[900, 1], [910, 1]],
                                            "center": [[900, 0], [910, 0]], "right": [[900, -1], [910, -1]]})
        elif kind == "sign":
            intruder = build.build_sign({"id": 9000 + op.get("n", 0), "elems": [{"id": "MAX_SPEED", "vals": ["10"]}]})
        else:
            intruder = build.build_light({"id": 9000 + op.get("n", 0)})
        objs.insert(op["pos"] % (len(objs) + 1), intruder)
        ref = bool(op.get("ref", True))
        self.last = f"Scenario.remove_lanelet[list with a foreign lanelet,ref={ref}]" if kind == "lanelet" else \
            f"Scenario.remove_traffic_{kind}[list with a foreign {kind}]"
        self.faults["F-midbatch"] += 1
        try:
            if kind == "lanelet":
                self.sc.remove_lanelet(objs, referenced_elements=ref)
            elif kind == "sign":
                self.sc.remove_traffic_sign(objs)
            else:
                self.sc.remove_traffic_light(objs)
            raised = None
        except Exception as e:  # noqa
            raised = type(e).__name__
        remaining = {la.lanelet_id for la in self.net.lanelets}
        gone = [i for i in ids if i not in remaining] if kind == "lanelet" else []
        signs_now = {x.traffic_sign_id for x in self.net.traffic_signs}
        lights_now = {x.traffic_light_id for x in self.net.traffic_lights}
        for x in sorted(set(self.m.a["S"]) - signs_now):
            self.m.remove_sign(x)
        for x in sorted(set(self.m.a["T"]) - lights_now):
            self.m.remove_light(x)
        for i in gone:
            self.m.remove_lanelet(i)
        self.probe("list-removal-interrupted" if raised and gone else "list-removal-with-foreign-lanelet")
        self._check(op)
        return {"raised": raised, "gone": gone}

    def _op_cut_shape(self, op):
        net = self.net
        shape = None
        raw = None
        if op.get("shape") is not None:
            if op.get("lanelet") is not None:
                la = net.find_lanelet_by_id(op["lanelet"])
                c = la.center_vertices
                m = c[0] + op.get("t", 0.5) * (c[-1] - c[0])
                pos = [float(m[0]), float(m[1])]
                if op.get("snap"):
                    # lattice universes: put the shape on the lattice (its border then often coincides with
                    # lanelet borders - an exactly decidable tangency)
                    pos = [float(round(pos[0])) + op["snap"][0], float(round(pos[1])) + op["snap"][1]]
            else:
                pos = op.get("far", [3000.0, 3000.0])
            shape = build.build_shape(gen._place(op["shape"], pos, op.get("ori", 0.0)))
            raw = geom.raw_shape(shape)
        excl = {LaneletType[t] for t in op.get("exclude", [])}
        self.last = "create_from_lanelet_network[" + ",".join(
            x for x in ("shape" if shape is not None else "", "types" if excl else "") if x) + "]"
        try:
            new = LaneletNetwork.create_from_lanelet_network(net, shape_input=shape, exclude_lanelet_types=excl or None)
        except Exception as e:  # noqa
            raise Violation(f"C10/cut-out-raised/{self.last}", f"{self.last} raised {type(e).__name__}: {e}")
        # predicted selection
        got_ids = {x.lanelet_id for x in new.lanelets}
        keep = set()
        for la in net.lanelets:
            i = la.lanelet_id
            if {t.name for t in la.lanelet_type} & set(op.get("exclude", [])):
                verdict = False
            elif raw is None:
                verdict = True
            else:
                ring = geom.lanelet_ring(la.left_vertices, la.right_vertices)
                poly = geom.ring_polygon(ring)
                exact = geom.lattice_raw(raw) and geom.lattice_ring(ring)
                verdict = geom.shape_meets_polygon(raw, poly, exact=exact)
                if exact and poly.touches(geom._poly_of(raw)):
                    self.probe("cut-out-shape-exactly-tangent-to-lanelet")
                if verdict is not None and geom.has_circle(raw) and geom.circle_export_scale() != 1.0:
                    # open finding: the library selects by the disc of radius r/2.  Where that disc gives another
                    # verdict (or lies in its own don't-care band) and the library follows it, report the known
                    # finding and continue with the library's selection.
                    v2 = geom.shape_meets_polygon(geom.exported(raw), poly)
                    if v2 != verdict and (v2 is None or (i in got_ids) == v2):
                        if (i in got_ids) != verdict:
                            self.soft("C10/known/circle-half-radius",
                                      f"cut-out by a circle selects lanelets by the disc of radius r/2 (open finding: "
                                      f"Circle.shapely_object buffers by radius / 2): lanelet {i} "
                                      f"selected={i in got_ids}")
                        verdict = (i in got_ids) if v2 is None else v2
            if verdict is None:
                verdict = i in got_ids  # inside the don't-care band: adopt
            if verdict:
                keep.add(i)
        if got_ids != keep:
            raise Violation(f"C10/cut-out-selection/{self.last}",
                            f"{self.last} kept lanelets {sorted(got_ids)}, expected {sorted(keep)} "
                            f"(excluded types {op.get('exclude', [])}, shape {None if raw is None else raw['t']})")
        if raw is not None and keep and keep != set(self.m.a["L"]):
            self.probe("cut-out-by-shape-partial")
        if excl and keep != set(self.m.a["L"]):
            self.probe("cut-out-by-type-partial")
        self._probe_removal("lanelet", sorted(set(self.m.a["L"]) - keep))
        if op.get("keep_source", True):
            self.shadow = (self.sc, self.m.clone())
            self.probe("cut-out-keeps-source-alive")
        self.m.restrict(keep)
        self.sc = _new_scenario()
        self.sc.add_objects(new)
        self._check(op, lenient_intersections=True)
        return {"kept": sorted(keep)}

    def _op_cut_list(self, op):
        net = self.net
        lanelets = [net.find_lanelet_by_id(i) for i in op["ids"]]
        self.last = "create_from_lanelet_list"
        try:
            new = LaneletNetwork.create_from_lanelet_list(lanelets)
        except Exception as e:  # noqa
            raise Violation(f"C10/cut-out-raised/{self.last}", f"{self.last} raised {type(e).__name__}: {e}")
        self._probe_removal("lanelet", sorted(set(self.m.a["L"]) - set(op["ids"])))
        if op.get("keep_source", True):
            self.shadow = (self.sc, self.m.clone())
            self.probe("cut-out-keeps-source-alive")
        self.m.restrict(set(op["ids"]), keep_signs_lights=False)
        self.m.a["I"] = {}
        self.sc = _new_scenario()
        self.sc.add_objects(new)
        self._check(op)
        return "ok"

    def _op_restart(self, op):
        self.faults["F-restart"] += 1
        self.probe("restart-" + op["how"])
        self.last = self.last.split("+")[0] + "+restart"
        if op.get("keep"):
            self.shadow = (self.sc, self.m.clone())
        if op["how"] == "pickle":
            self.sc = pickle.loads(pickle.dumps(self.sc))
        elif op["how"] == "rebuild":
            # the same map assembled again element by element; the lanelets are added with rtree=False throughout (the
            # documented bulk mode), so the spatial index of the new network is never built - removals and cut-outs do
            # not need it
            old = self.net
            new = LaneletNetwork()
            try:
                for la in old.lanelets:
                    new.add_lanelet(copy.deepcopy(la), rtree=False)
                for x in old.traffic_signs:
                    new.add_traffic_sign(copy.deepcopy(x), set())
                for x in old.traffic_lights:
                    new.add_traffic_light(copy.deepcopy(x), set())
                for x in old.intersections:
                    new.add_intersection(copy.deepcopy(x))
                sc = build.build_scenario({"sid": {"country": "DEU"}})
                sc.add_objects(new)
            except Exception as e:  # noqa
                raise Violation("C10/rebuild-raised/restart", f"assembling the network again raised "
                                                              f"{type(e).__name__}: {e}")
            self.sc = sc
        else:
            self.sc = copy.deepcopy(self.sc)
        self._check(op)
        return "ok"


# ------------------------------------------------------------------ clients
def _remover(rng, run, cfg):
    part = {"lanelet": "L", "sign": "S", "light": "T", "intersection": "I"}
    while True:
        a = run.m.a
        kinds = [k for k in cfg["kinds"] if a[part[k]]]
        if not kinds:
            yield None
            continue
        kind = rng.pick(kinds)
        ids = sorted(a[part[kind]])
        if kind in ("lanelet", "sign", "light") and rng.chance(0.06 if kind == "lanelet" else 0.12):
            n = rng.randint(1, min(3, len(ids)))
            yield {"op": "sc_remove_intruder", "ids": rng.sample(ids, n), "pos": rng.randrange(4),
                   "ref": rng.chance(0.6), "kind": kind}
            continue
        if rng.chance(0.08):
            gone = rng.choice([x for x in range(1, 130) if x not in a[part[kind]]])
            yield {"op": "net_remove_absent", "kind": kind, "id": gone}
        elif rng.chance(cfg["p_net_level"]):
            yield {"op": "net_remove", "kind": kind, "ids": [rng.pick(ids)], "rtree": rng.chance(0.8),
                   "np_id": rng.chance(0.3), "positional": rng.chance(0.5)}
        else:
            form = rng.choice(["single", "list"])
            n = 1 if form == "single" else rng.randint(1, min(3, len(ids)))
            op = {"op": "sc_remove", "kind": kind, "ids": rng.sample(ids, n), "form": form, "as_copy": rng.chance(0.2)}
            if kind == "lanelet":
                op["ref"] = rng.chance(0.7)
            yield op


def _editor(rng, run, cfg):
    while True:
        a = run.m.a
        L = sorted(a["L"])
        if not L or rng.chance(0.3):
            yield {"op": rng.choice(["cleanup", "lookups", "lookups"])}
            continue
        how = rng.pick(["add_successor", "add_predecessor", "remove_successor", "remove_predecessor",
                        "add_traffic_sign_to_lanelet", "add_traffic_light_to_lanelet"])
        pool = L if "cessor" in how else sorted(a["S" if "sign" in how else "T"])
        op = {"op": "edit", "how": how, "a": rng.pick(L), "b": rng.pick(pool)} if pool else None
        yield op if op and run.enabled(op) else None


def _cutter(rng, run, cfg):
    while True:
        a = run.m.a
        ids = sorted(a["L"])
        if run.shadow is not None and rng.chance(0.3):
            yield {"op": "swap"}
            continue
        if not ids:
            yield None
            continue
        r = rng.random()
        if r < 0.25:
            yield {"op": "cut_list", "ids": sorted(rng.subset(ids, 0.6, at_least=1))}
            continue
        op = {"op": "cut_shape"}
        if r < 0.85:
            op["lanelet"] = rng.pick(ids)
            op["t"] = rng.uniform(0.0, 1.0)
            op["shape"] = gen.gen_shape(rng, ("rect", "circ", "poly"), scale=rng.choice([1.0, 3.0, 8.0]))
            op["ori"] = rng.uniform(-3, 3)
            if run.universe.get("lattice") and rng.chance(0.7):
                op["shape"] = {"t": "rect", "l": float(rng.choice([2, 4, 8, 12, 16])), "w": float(rng.choice([2, 4, 6]))}
                op["ori"] = 0.0
                op["snap"] = [float(rng.randint(-6, 6)), float(rng.randint(-3, 3))]
        if r >= 0.6 or rng.chance(0.3):
            op["exclude"] = sorted(rng.subset(gen.LANELET_TYPES, 0.3, at_least=1))
        yield op


def _restarter(rng, run, cfg):
    while True:
        if run.shadow is not None and rng.chance(0.5):
            yield {"op": "swap"}
        else:
            yield {"op": "restart", "how": rng.pick(["pickle", "deepcopy", "rebuild"]), "keep": rng.chance(0.5)}


class C10(Property):
    id = "C10"
    title = "Removing or cutting out network elements leaves no dangling references"
    tiers = {"quick": {"runs": 20000, "wall": 240, "chunk": 100}, "thorough": {"runs": 1000000, "wall": 1700, "chunk": 250}}
    expected_probes = ["removed-lanelet-was-pred-or-succ-of-survivor", "removed-lanelet-was-adjacent-to-survivor",
                       "intersection-spans-removed-and-kept-lanelets", "stop-line-reference-cleaned",
                       "exclusive-sign-or-light-removed-with-lanelet", "shared-sign-or-light-kept",
                       "cut-out-by-shape-partial", "cut-out-by-type-partial", "restart-pickle", "restart-deepcopy",
                       "cut-out-keeps-source-alive", "continued-on-the-other-network", "removal-of-absent-id",
                       "cut-out-shape-exactly-tangent-to-lanelet", "list-removal-interrupted",
                       "map-edited:add_successor", "map-edited:add_traffic_sign_to_lanelet", "cleanup-on-a-consistent-network", "read-only-lookups-between-edits",
                       "removed-by-an-equal-copy"]
    assumptions = [
        "networks are well formed: every reference names an existing element and a stop line refers only to signs and "
        "lights its lanelet also references (checked on every generated universe)",
        "relations are compared as sets (the library legitimately re-orders predecessor / successor lists)",
        "for cut-outs, which emptied incoming elements / intersections are dropped is not prescribed: every one present "
        "must be the restriction of an old one; left_of and TrafficSign.first_occurrence are not in the property's list",
        "cut-out selections inside the geometric don't-care band are adopted from the library",
        "create_from_lanelet_list receives lanelets only: signs and lights cannot follow, their references must vanish",
        "cleanup_ids=False is documented to keep references and is not generated",
    ]

    def gen_config(self, rng):
        return {"steps": rng.randint(3, 15), "kinds": sorted(rng.subset(["lanelet", "sign", "light", "intersection"],
                                                                        0.7, at_least=1)),
                "p_net_level": rng.pick([0.0, 0.3, 0.6, 1.0]), "cutter": rng.chance(0.6), "restarts": rng.chance(0.4),
                "remover": rng.chance(0.85), "editor": rng.chance(0.35)}

    def gen_universe(self, rng, cfg):
        ids = gen.IdAlloc(rng, 1, 120, zero=0.15)
        lattice = rng.chance(0.25)
        net = gen.gen_network(rng, rows=rng.randint(1, 3), cols=rng.randint(1, 3), ids=ids, overlap=rng.chance(0.4),
                              lattice=lattice)
        net.pop("_geom", None)
        return {"network": net, "lattice": lattice}

    def new_run(self, universe, cfg):
        return Run(universe, cfg)

    def make_clients(self, rng, cfg, run):
        out = []
        if cfg["remover"] or not cfg["cutter"]:
            out.append(Client("remover", 3.0, _remover(rng.sub("rem"), run, cfg)))
        if cfg["cutter"]:
            out.append(Client("cutter", 1.0, _cutter(rng.sub("cut"), run, cfg)))
        if cfg["restarts"]:
            out.append(Client("restarter", 0.6, _restarter(rng.sub("r"), run, cfg)))
        if cfg.get("editor"):
            out.append(Client("editor", 0.8, _editor(rng.sub("e"), run, cfg)))
        return out

    def prune_universe(self, universe, trace):
        net = universe["network"]
        for part in ("intersections", "signs", "lights"):
            if net.get(part):
                if part == "intersections":
                    for i in range(len(net[part])):
                        yield dict(universe, network=dict(net, intersections=net[part][:i] + net[part][i + 1:]))
                else:
                    for i in range(len(net[part])):
                        gone = net[part][i]["id"]
                        lan = []
                        for la in net["lanelets"]:
                            la = dict(la)
                            if part in la:
                                la[part] = [x for x in la[part] if x != gone]
                            if la.get("stop"):
                                st = dict(la["stop"])
                                if st.get(part) is not None:
                                    st[part] = [x for x in st[part] if x != gone]
                                la["stop"] = st
                            lan.append(la)
                        yield dict(universe, network=dict(net, lanelets=lan, **{part: net[part][:i] + net[part][i + 1:]}))
        if len(net["lanelets"]) > 1:
            for i in range(len(net["lanelets"])):
                gone = net["lanelets"][i]["id"]
                keep = []
                for la in net["lanelets"][:i] + net["lanelets"][i + 1:]:
                    la = dict(la, pred=[x for x in la.get("pred", []) if x != gone],
                              succ=[x for x in la.get("succ", []) if x != gone])
                    if la.get("adjl") == gone:
                        la.pop("adjl"), la.pop("adjl_same", None)
                    if la.get("adjr") == gone:
                        la.pop("adjr"), la.pop("adjr_same", None)
                    keep.append(la)
                inters = []
                for it in net.get("intersections", []):
                    incs = []
                    for inc in it["incomings"]:
                        inc = dict(inc)
                        for k in ("in", "right", "straight", "left"):
                            inc[k] = [x for x in inc.get(k, []) if x != gone]
                        incs.append(inc)
                    inters.append(dict(it, incomings=incs, crossings=[x for x in it.get("crossings", []) if x != gone]))
                signs = [dict(s, first=[x for x in s.get("first", []) if x != gone]) for s in net.get("signs", [])]
                yield dict(universe, network=dict(net, lanelets=keep, intersections=inters, signs=signs))

    def simplify_op(self, op):
        if op["op"] in ("sc_remove", "cut_list") and len(op["ids"]) > 1:
            for i in range(len(op["ids"])):
                yield dict(op, ids=op["ids"][:i] + op["ids"][i + 1:])
        if op["op"] == "sc_remove" and op.get("form") == "list" and len(op["ids"]) == 1:
            yield dict(op, form="single")
        if op["op"] == "cut_shape":
            if op.get("exclude") and op.get("shape"):
                yield {k: v for k, v in op.items() if k != "exclude"}
                yield {k: v for k, v in op.items() if k not in ("shape", "lanelet", "t", "ori")}
            if op.get("exclude") and len(op["exclude"]) > 1:
                for i in range(len(op["exclude"])):
                    yield dict(op, exclude=op["exclude"][:i] + op["exclude"][i + 1:])
        if op["op"] == "restart" and op["how"] != "deepcopy":
            yield dict(op, how="deepcopy")

    def describe_sim_time(self, sim_time, steps):
        return {"unit": "logical steps (one public API call each); the property has no clock", "steps": steps}

    def components(self):
        return {"real": ["commonroad LaneletNetwork (remove_*, cleanup_*, create_from_lanelet_network / _list)",
                         "Scenario.remove_* / remove_hanging_lanelet_members", "pickle / copy.deepcopy"],
                "stub": ["none; the cut-out selection is predicted by the independent geometric oracle crkit.geom"]}


PROPERTY = C10()
