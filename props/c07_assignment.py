"""C07 — obstacle-lanelet assignment is geometrically correct and invertible.

Histories of add / assign / remove / re-add with restart faults (deepcopy; XML or protobuf write followed
by open(lanelet_assignment=True|False)).  Reference model: which obstacles are contained and which are
assigned; geometric truth from crkit.geom (raw lanelet vertices, occupancy parameters, don't-care band).
"""
import copy
import math
import os
import shutil
import tempfile

from commonroad.common.file_reader import CommonRoadFileReader
from commonroad.common.file_writer import CommonRoadFileWriter
from commonroad.common.util import FileFormat
from commonroad.common.writer.file_writer_interface import OverwriteExistingFile
from commonroad.planning.planning_problem import PlanningProblemSet
from commonroad.prediction.prediction import TrajectoryPrediction
from commonroad.scenario.lanelet import LaneletNetwork
from commonroad.scenario.scenario import Scenario
from commonroad.scenario.obstacle import DynamicObstacle, StaticObstacle

from crkit import build, gen, geom
from simkit.engine import Client, HarnessError, Property, RunBase, Violation

SCRATCH_ROOT = "/dev/shm" if os.path.isdir("/dev/shm") else tempfile.gettempdir()


def relabel_network(net, offset):
    """the same network with every lanelet id shifted by `offset`"""
    out = dict(net, lanelets=[])
    for la in net["lanelets"]:
        la2 = dict(la, id=la["id"] + offset, pred=[x + offset for x in la.get("pred", [])],
                   succ=[x + offset for x in la.get("succ", [])])
        for k in ("adjl", "adjr"):
            if la.get(k) is not None:
                la2[k] = la[k] + offset
        out["lanelets"].append(la2)
    return out


def _kind(spec):
    if spec["role"] == "static":
        return "static"
    if spec["role"] == "dynamic":
        if spec.get("pred") and spec["pred"]["kind"] == "set":
            return "bystander-set"  # dynamic obstacle with a set-based prediction: outside the property's quantifier
        return "dynamic"
    return "bystander"


class Run(RunBase):
    def __init__(self, universe, cfg):
        super().__init__(universe, cfg)
        self.sc = build.build_scenario({"network": universe["network"], "sid": {"country": "DEU"}})
        self.pool = universe["obstacles"]  # key -> spec
        self.contained = {}  # id -> kind
        self.assigned = {}  # id -> True (all time steps of its horizon were assigned)
        self.stash = {}  # id -> (object, kind, assigned)  removed obstacles, kept for re-adding the same object
        self.late = universe.get("late_lanelets", [])  # lanelets that join the network while the run is under way
        self.grown = set()  # ids of late lanelets this scenario has taken over
        self.dir = None
        self.last = "start"
        # an independent scenario (same network, every obstacle added, nothing ever assigned or removed): its registries
        # have to stay empty whatever happens to the scenario under test
        self.idle = build.build_scenario({"network": universe["network"], "sid": {"country": "DEU"}})
        for spec in universe["obstacles"].values():
            try:
                self.idle.add_objects(build.build_obstacle(spec))
            except Exception:  # noqa
                pass
        self.shadow = None  # sibling instance after a deepcopy that keeps the original alive
        if cfg.get("relabelled_twin"):
            # a second, DIFFERENT scenario living in the same process: same geometry and obstacles, other lanelet ids.
            # The clients move between the two (swap); state kept per class / per module instead of per network
            # (a cache keyed by the query only) would carry answers from one into the other.
            net2 = relabel_network(universe["network"], 1000)
            self.shadow = {"sc": build.build_scenario({"network": net2, "sid": {"country": "DEU"}}),
                           "contained": {}, "assigned": {}, "stash": {}, "grown": set()}
            self.probe("second-scenario-with-other-lanelet-ids")

    _FIELDS = ("sc", "contained", "assigned", "stash", "grown")

    def _swap(self):
        cur = {f: getattr(self, f) for f in self._FIELDS}
        for f in self._FIELDS:
            setattr(self, f, self.shadow[f])
        self.shadow = cur

    def _check_shadow(self):
        if self.shadow is None:
            return
        self._swap()
        try:
            self._check()
        except Violation as v:
            raise Violation(v.signature.replace("C07/", "C07/sibling-affected/", 1),
                            "the OTHER copy of the scenario (made by an earlier deepcopy) is no longer consistent "
                            "after an operation on this copy: " + v.message, v.detail)
        finally:
            self._swap()

    def close(self):
        if self.dir:
            shutil.rmtree(self.dir, ignore_errors=True)

    def enabled(self, op):
        k = op["op"]
        if k == "add":
            return op["key"] in self.pool and self.pool[op["key"]]["id"] not in self.contained
        if k == "readd":
            return op["id"] in self.stash and op["id"] not in self.contained
        if k == "remove":
            return len(set(op["ids"])) == len(op["ids"]) and len(op["ids"]) > 0 and \
                all(i in self.contained for i in op["ids"])
        if k == "assign":
            if not (op["ids"] is None or all(self.contained.get(i) in ("static", "dynamic") for i in op["ids"])):
                return False
            if op["ids"] is None and "bystander-set" in self.contained.values():
                # assigning "all" obstacles of a scenario that contains a set-based dynamic obstacle raises today
                # (AttributeError); such obstacles are outside the property, so they are only ever by-standers of
                # assignments that name the obstacles to assign
                return False
            if op.get("time_steps") is not None:
                # documented use: time steps of the obstacles' horizons; a step before an obstacle's initial time
                # step makes the library dereference a missing state (not generated)
                for i, kind in self.contained.items():
                    if kind == "dynamic" and (op["ids"] is None or i in op["ids"]):
                        ob = self.sc.obstacle_by_id(i)
                        if ob is not None and min(op["time_steps"]) < ob.initial_state.time_step:
                            return False
            return True
        if k == "swap":
            return self.shadow is not None
        if k == "shrink":
            have = {la.lanelet_id for la in self.sc.lanelet_network.lanelets}
            return 0 < len(op["ids"]) == len(set(op["ids"])) < len(have) and set(op["ids"]) <= have
        if k == "grow":
            ids = [la["id"] for la in self.late if la["id"] in op["ids"]]
            return len(ids) == len(op["ids"]) == len(set(op["ids"])) > 0 and not (set(ids) & self.grown) and \
                (op["form"] != "list+refused" or bool(self.sc.lanelet_network.lanelets))
        return k in ("restart", "check")

    # ------------------------------------------------------------------ the oracle
    def _polys(self):
        out = {}
        for la in self.sc.lanelet_network.lanelets:
            ring = geom.lanelet_ring(la.left_vertices, la.right_vertices)
            out[la.lanelet_id] = (geom.ring_polygon(ring), ring)
        return out

    def _truth(self, ob, t, polys):
        st = ob.initial_state if t == ob.initial_state.time_step else ob.prediction.trajectory.state_at_time_step(t)
        occ = ob.occupancy_at_time(t)
        if st is None or occ is None:
            raise HarnessError(f"obstacle {ob.obstacle_id} has no state/occupancy at assigned time step {t}")
        pos = (float(st.position[0]), float(st.position[1]))
        raw = geom.raw_shape(occ.shape)
        lat = {i: geom.lattice_ring(ring) for i, (_, ring) in polys.items()}
        pl, rl = geom.on_lattice(pos), geom.lattice_raw(raw)
        center = {i: geom.point_in_ring(poly, ring, pos, exact=pl and lat[i]) for i, (poly, ring) in polys.items()}
        shape = {i: geom.shape_meets_polygon(raw, poly, exact=rl and lat[i]) for i, (poly, _) in polys.items()}
        if rl and any(lat[i] and poly.touches(geom._poly_of(raw)) for i, (poly, _) in polys.items()):
            self.probe("footprint-exactly-tangent-to-a-lanelet")
        return center, shape, raw

    def _timesteps(self, ob):
        t0 = ob.initial_state.time_step
        if isinstance(ob, DynamicObstacle) and ob.prediction is not None:
            return list(range(t0, ob.prediction.final_time_step + 1))
        return [t0]

    def _recorded(self, ob, t):
        """(center set, shape set) recorded for time step t, or raises Violation if the record is missing"""
        t0 = ob.initial_state.time_step
        tag = f"{self.contained[ob.obstacle_id]}<-{self.last}"
        recs = []
        if t == t0:
            recs.append(("initial", ob.initial_center_lanelet_ids, ob.initial_shape_lanelet_ids))
        if isinstance(ob, DynamicObstacle) and ob.prediction is not None:
            p = ob.prediction
            ca, sa = p.center_lanelet_assignment, p.shape_lanelet_assignment
            recs.append(("prediction", None if ca is None else ca.get(t), None if sa is None else sa.get(t)))
        if t == t0 and len(recs) == 2 and (recs[1][1] is None or recs[1][2] is None) and \
                recs[0][1] is not None and recs[0][2] is not None:
            recs = recs[:1]  # the initial step may be recorded on the obstacle only (ready-made assignments)
        for where, c, s in recs:
            if c is None or s is None:
                raise Violation(f"C07/assignment-missing/{tag}",
                                f"obstacle {ob.obstacle_id} was assigned but has no {where} "
                                f"{'center' if c is None else 'shape'} lanelet record for time step {t} "
                                f"(after {self.last})")
        return recs

    def _check(self):
        sc = self.sc
        polys = self._polys()
        exp_static = {i: set() for i in polys}
        exp_dyn = {i: {} for i in polys}
        for ob in list(sc.static_obstacles) + list(sc.dynamic_obstacles):
            oid = ob.obstacle_id
            if oid not in self.contained:
                raise HarnessError(f"scenario holds obstacle {oid} the model does not know")
            kind = self.contained[oid]
            tag = f"{kind}<-{self.last}"
            if kind == "bystander-set":
                self.probe("set-based-bystander-present")
                continue
            if not self.assigned.get(oid):
                continue
            ts_assigned = self._timesteps(ob) if self.assigned[oid] is True else \
                [t for t in self._timesteps(ob) if t in self.assigned[oid]]
            if self.assigned[oid] is not True and len(ts_assigned) < len(self._timesteps(ob)):
                self.probe("partially-assigned-obstacle-checked")
            for t in ts_assigned:
                center_t, shape_t, raw = self._truth(ob, t, polys)
                st_now = ob.state_at_time(t) if isinstance(ob, DynamicObstacle) else ob.initial_state
                pos_now = (float(st_now.position[0]), float(st_now.position[1]))
                for where, c, s in self._recorded(ob, t):
                    for what, rec, truth in (("center", c, center_t), ("shape", s, shape_t)):
                        missing, extra = geom.compare_sets(rec, truth)
                        if not (missing or extra):
                            continue
                        msg = (f"obstacle {oid} ({kind}, shape {raw['t']}) t={t}: recorded {where} {what} lanelets "
                               f"{sorted(rec)}, geometric truth {sorted(i for i, v in truth.items() if v)} "
                               f"(missing {missing}, wrongly recorded {extra}) after {self.last}")
                        if what == "shape" and geom.has_circle(raw) and geom.circle_export_scale() != 1.0:
                            t2 = {i: geom.shape_meets_polygon(geom.exported(raw), poly) for i, (poly, _) in polys.items()}
                            m2, e2 = geom.compare_sets(rec, t2)
                            if not (m2 or e2):
                                self.soft("C07/known/circle-half-radius",
                                          "shape assignment of a circular obstacle follows the disc of radius r/2 "
                                          "(open finding: Circle.shapely_object buffers by radius / 2): " + msg)
                                continue
                        raise Violation(f"C07/{what}-assignment-wrong/{tag}", msg)
                    # the registry is the exact inverse of the recorded shape assignment
                    if where == "initial" or t != ob.initial_state.time_step:
                        for lid in s:
                            if lid in polys:
                                if kind == "static":
                                    exp_static[lid].add(oid)
                                else:
                                    exp_dyn[lid].setdefault(t, set()).add(oid)
                if sum(1 for v in shape_t.values() if v is True) >= 2:
                    self.probe("obstacle-on-several-lanelets")
                if isinstance(ob, DynamicObstacle) and t > ob.initial_state.time_step:
                    prev_pos = ob.state_at_time(t - 1).position
                    moved = math.hypot(float(prev_pos[0]) - pos_now[0], float(prev_pos[1]) - pos_now[1])
                    if 0 < moved < 0.01:
                        pc = {i: geom.point_in_ring(poly, ring, (float(prev_pos[0]), float(prev_pos[1])))
                              for i, (poly, ring) in polys.items()}
                        if any(pc[i] is not None and center_t[i] is not None and pc[i] != center_t[i] for i in polys):
                            self.probe("creeping-obstacle-crosses-boundary")
                    prev = ob.state_at_time(t - 1)
                    cur = ob.state_at_time(t)
                    if prev is not None and cur is not None and float(prev.position[0]) == float(cur.position[0]) \
                            and float(prev.position[1]) == float(cur.position[1]) \
                            and prev.orientation != cur.orientation:
                        self.probe("standing-obstacle-turns-on-the-spot")
                if any(shape_t[i] is True and center_t[i] is False for i in polys):
                    self.probe("shape-touches-lanelet-center-is-not-in")
                if any(center_t[i] is True and shape_t[i] is False for i in polys):
                    self.probe("center-on-lanelet-the-shape-does-not-touch")
                self.probe(f"assigned-shape-{raw['t']}")
        for la in sc.lanelet_network.lanelets:
            lid = la.lanelet_id
            got_s = set(la.static_obstacles_on_lanelet or set())
            if got_s != exp_static[lid]:
                raise Violation(f"C07/registry-static/<-{self.last}",
                                f"lanelet {lid}: static registry {sorted(got_s)}, inverse of the recorded shape "
                                f"assignment is {sorted(exp_static[lid])} (contained {sorted(self.contained)}, "
                                f"assigned {sorted(i for i, v in self.assigned.items() if v)}) after {self.last}")
            got_d = {t: set(v) for t, v in la.dynamic_obstacles_on_lanelet.items() if v}
            exp_d = {t: v for t, v in exp_dyn[lid].items() if v}
            if got_d != exp_d:
                raise Violation(f"C07/registry-dynamic/<-{self.last}",
                                f"lanelet {lid}: dynamic registry { {t: sorted(v) for t, v in sorted(got_d.items())} }, "
                                f"inverse of the recorded shape assignment is "
                                f"{ {t: sorted(v) for t, v in sorted(exp_d.items())} } after {self.last}")

    # ------------------------------------------------------------------ ops
    def apply(self, op):
        out = getattr(self, "_op_" + op["op"])(op)
        self._check()
        if op["op"] != "swap":
            self._check_shadow()
        self.note_state([self.last, sorted(self.contained.items()),
                         sorted((i, v if v in (True, False) else sorted(v)) for i, v in self.assigned.items())])
        return out

    def finish(self):
        for la in self.idle.lanelet_network.lanelets:
            if la.static_obstacles_on_lanelet or any(v for v in la.dynamic_obstacles_on_lanelet.values()):
                raise Violation("C07/independent-scenario-affected/finish",
                                f"lanelet {la.lanelet_id} of a second, independent scenario in which nothing was ever "
                                f"assigned lists obstacles: {sorted(la.static_obstacles_on_lanelet)} / "
                                f"{dict(la.dynamic_obstacles_on_lanelet)}")
        for o in self.idle.static_obstacles + self.idle.dynamic_obstacles:
            if o.initial_shape_lanelet_ids or o.initial_center_lanelet_ids:
                raise Violation("C07/independent-scenario-affected/finish",
                                f"obstacle {o.obstacle_id} of a second, independent scenario got an assignment")

    def _op_check(self, op):
        return "ok"

    def _op_swap(self, op):
        self._swap()
        self.probe("continued-on-the-other-copy")
        return "ok"

    def _preassign(self, ob):
        """Give a freshly built obstacle a ready-made assignment the way another tool would: initial sets on the
        obstacle, trajectory steps (NOT the initial step) in the prediction's dictionaries.  Returns False if some
        verdict lies in the don't-care band (then the obstacle is added unassigned)."""
        polys = self._polys()
        rec = {}
        for t in self._timesteps(ob):
            c, s, raw = self._truth(ob, t, polys)
            if geom.has_circle(raw) and geom.circle_export_scale() != 1.0:
                return False
            if any(v is None for v in c.values()) or any(v is None for v in s.values()):
                return False
            rec[t] = ({i for i, v in c.items() if v}, {i for i, v in s.items() if v})
        t0 = ob.initial_state.time_step
        ob.initial_center_lanelet_ids, ob.initial_shape_lanelet_ids = set(rec[t0][0]), set(rec[t0][1])
        if isinstance(ob, DynamicObstacle) and ob.prediction is not None:
            ob.prediction.center_lanelet_assignment = {t: set(v[0]) for t, v in rec.items() if t != t0}
            ob.prediction.shape_lanelet_assignment = {t: set(v[1]) for t, v in rec.items() if t != t0}
        return True

    def _op_add(self, op):
        spec = self.pool[op["key"]]
        self.last = "add"
        ob = build.build_obstacle(spec)
        pre = False
        if op.get("preassign") and _kind(spec) in ("static", "dynamic") and self.sc.lanelet_network.lanelets:
            pre = self._preassign(ob)
            if pre:
                self.last = "add[pre-assigned]"
                self.probe("pre-assigned-obstacle-added")
        try:
            self.sc.add_objects(ob)
        except Exception as e:  # noqa
            raise Violation(f"C07/add-raised/<-{self.last}", f"adding an obstacle raised {type(e).__name__}: {e}")
        self.contained[spec["id"]] = _kind(spec)
        self.assigned[spec["id"]] = True if pre else False
        return "ok"

    def _op_readd(self, op):
        ob, kind, assigned = self.stash.pop(op["id"])
        self.last = "readd"
        self.probe("readd-after-remove" + ("-assigned" if assigned else ""))
        try:
            self.sc.add_objects(ob)
        except Exception as e:  # noqa
            raise Violation("C07/add-raised/<-readd", f"re-adding a removed obstacle raised {type(e).__name__}: {e}")
        self.contained[op["id"]] = kind
        self.assigned[op["id"]] = assigned
        return "ok"

    def _op_assign(self, op):
        ids = op["ids"]
        ts = op.get("time_steps")
        self.last = ("assign[all]" if ids is None else "assign[subset]") + ("" if ts is None else "[time_steps]")
        try:
            form = op.get("form", "set")
            ids_arg = None if ids is None else {"set": set, "list": list, "tuple": tuple}[form](ids)
            ts_arg = ts
            if ts is not None and op.get("ts_form") == "tuple":
                ts_arg = tuple(ts)
            elif ts is not None and op.get("ts_form") == "range" and list(ts) == list(range(ts[0], ts[-1] + 1)):
                ts_arg = range(ts[0], ts[-1] + 1)
            self.sc.assign_obstacles_to_lanelets(time_steps=ts_arg, obstacle_ids=ids_arg)
        except Exception as e:  # noqa
            kinds = sorted({self.universe_shape_kind(i) for i in (ids or self.contained)
                            if self.contained.get(i) in ("static", "dynamic")})
            kinds = ["group"] if "group" in kinds else ["plain"]
            raise Violation(f"C07/assign-raised[{','.join(kinds)}]/<-{self.last}",
                            f"assign_obstacles_to_lanelets({'all' if ids is None else sorted(ids)}) raised "
                            f"{type(e).__name__}: {str(e)[:200]}")
        for i, k in self.contained.items():
            if k in ("static", "dynamic") and (ids is None or i in ids):
                if ts is None or k == "static":
                    self.assigned[i] = True
                else:
                    ob = self.sc.obstacle_by_id(i)
                    hit = {t for t in ts if t in self._timesteps(ob)}
                    if self.assigned.get(i) is True:
                        pass  # everything was assigned before; re-assigning some steps changes nothing
                    else:
                        self.assigned[i] = set(self.assigned.get(i) or set()) | hit
                        if set(self._timesteps(ob)) <= self.assigned[i]:
                            self.assigned[i] = True
        return "ok"

    def _op_grow(self, op):
        """The map grows while obstacles are there: lanelets are added through the scenario (one by one, as a list, or
        as a list whose LAST element the scenario must refuse - the batch fails after the lanelets were taken over),
        then the obstacles are assigned again.  The new lanelets count like any other."""
        specs = [la for la in self.late if la["id"] in op["ids"]]
        built = [build.build_lanelet(la) for la in specs]
        form = op["form"]
        self.last = f"grow[{form}]+assign"
        self.probe("network-grown:" + form)
        try:
            if form == "single":
                for la in built:
                    self.sc.add_objects(la)
            elif form == "list":
                self.sc.add_objects(built)
            else:
                self.faults["F-midbatch"] += 1
                present = self.sc.lanelet_network.lanelets[0]
                dup = copy.deepcopy(present)  # its id is taken in this scenario
                try:
                    self.sc.add_objects(built + [dup])
                except ValueError:
                    pass
        except Exception as e:  # noqa
            raise Violation(f"C07/add-raised/<-{self.last}", f"adding lanelets raised {type(e).__name__}: {e}")
        have = {la.lanelet_id for la in self.sc.lanelet_network.lanelets}
        if not set(op["ids"]) <= have:
            raise Violation(f"C07/lanelets-not-taken-over/<-{self.last}",
                            f"lanelets {sorted(set(op['ids']) - have)} are not in the network after add_objects")
        self.grown |= set(op["ids"])
        self._reassign_all()
        return "ok"

    def _reassign_all(self):
        self.stash.clear()  # objects removed earlier carry assignments against the other map
        todo = sorted(i for i, k in self.contained.items() if k in ("static", "dynamic"))
        if todo:
            try:
                self.sc.assign_obstacles_to_lanelets(obstacle_ids=set(todo))
            except Exception as e:  # noqa
                raise Violation(f"C07/assign-raised[map-changed]/<-{self.last}",
                                f"assign_obstacles_to_lanelets({todo}) raised {type(e).__name__}: {str(e)[:200]}")
            for i in todo:
                self.assigned[i] = True

    def _op_shrink(self, op):
        """Lanelets leave the map through Scenario.remove_lanelet with a list that contains a lanelet the scenario does
        not know: the call fails half-way (reported as before).  Then the obstacles are assigned again: the lanelets
        that went must not be assigned to any more, those that stayed count as before."""
        ids = op["ids"]
        net = self.sc.lanelet_network
        objs = [net.find_lanelet_by_id(i) for i in ids]
        if any(o is None for o in objs):
            raise HarnessError("lanelet to remove is not in the network")
        intruder = build.build_lanelet({"id": 9000 + op.get("n", 0), "left": [[900, 1], [910, 1]],
                                        "center": [[900, 0], [910, 0]], "right": [[900, -1], [910, -1]]})
        objs.insert(op["pos"] % (len(objs) + 1), intruder)
        self.last = "shrink[list with a foreign lanelet]+assign"
        self.faults["F-midbatch"] += 1
        try:
            self.sc.remove_lanelet(objs)
            raised = None
        except Exception as e:  # noqa
            raised = type(e).__name__
        gone = [i for i in ids if net.find_lanelet_by_id(i) is None]
        if raised and gone:
            self.probe("map-shrunk:list-removal-interrupted")
        if op.get("readd") and gone:
            # the lanelets come back as NEW objects under their old ids (a map update): they know nothing about the
            # obstacles that were registered on their predecessors
            specs = {la["id"]: la for la in self.universe["network"]["lanelets"] + list(self.late)}
            try:
                for i in gone:
                    if i in specs:
                        self.sc.add_objects(build.build_lanelet(specs[i]))
                self.probe("map-shrunk:lanelets-came-back-under-their-ids")
            except Exception as e:  # noqa
                raise Violation(f"C07/add-raised/<-{self.last}", f"adding lanelets raised {type(e).__name__}: {e}")
        victim = op.get("then_remove")
        if victim is not None and victim in self.contained:
            # an obstacle is taken out while its assignment still names lanelets that have just left the map
            ob = self.sc.obstacle_by_id(victim)
            self.last = "shrink+remove-obstacle"
            if self.assigned.get(victim):
                self.probe("obstacle-removed-after-its-lanelet-left")
            try:
                self.sc.remove_obstacle(ob)
            except Exception as e:  # noqa
                raise Violation(f"C07/remove-raised[{self.contained[victim]}]/<-shrink",
                                f"removing contained obstacle {victim} raised {type(e).__name__}: {e} after lanelets "
                                f"{gone} had been removed from the map (assigned: {bool(self.assigned.get(victim))})")
            self.contained.pop(victim)
            self.assigned.pop(victim, None)
            self.last = "shrink[list with a foreign lanelet]+assign"
        self._reassign_all()
        return {"raised": raised, "gone": gone}

    def universe_shape_kind(self, oid):
        for s in self.pool.values():
            if s["id"] == oid:
                return s.get("shape", {}).get("t", "?")
        return "?"

    def _op_remove(self, op):
        ids, form = op["ids"], op.get("form", "single")
        objs = [self.sc.obstacle_by_id(i) for i in ids]
        if any(o is None for o in objs):
            raise HarnessError("model says contained, scenario cannot find the obstacle")
        self.last = f"remove[{form}]"
        if any(self.assigned.get(i) for i in ids):
            self.probe("remove-after-assign")
        args = [copy.deepcopy(o) for o in objs] if op.get("as_copy") else objs  # an equal object, not the same one
        if op.get("as_copy"):
            self.probe("removed-by-an-equal-copy")
        try:
            self.sc.remove_obstacle(args if form == "list" else args[0])
        except Exception as e:  # noqa
            kinds = sorted({self.contained[i] for i in ids})
            raise Violation(f"C07/remove-raised[{','.join(kinds)}]/<-remove",
                            f"removing contained obstacle(s) {ids} raised {type(e).__name__}: {e} "
                            f"(assigned: {[bool(self.assigned.get(i)) for i in ids]})")
        for i, o in zip(ids, objs):
            self.stash[i] = (o, self.contained.pop(i), self.assigned.pop(i))
        return "ok"

    def _op_restart(self, op):
        how = op["how"]
        self.faults["F-restart"] += 1
        self.probe("restart-" + how)
        self.last = "restart:" + how
        if how == "deepcopy":
            if op.get("keep"):
                self.shadow = {"sc": self.sc, "stash": self.stash, "contained": dict(self.contained),
                               "assigned": copy.deepcopy(self.assigned), "grown": set(self.grown)}
                self.probe("fork-keeps-original")
            self.sc, self.stash = copy.deepcopy((self.sc, self.stash))
            return "ok"
        if how == "cutout":
            # a second scenario is built on a network derived from this one's (create_from_lanelet_network) with copies
            # of the obstacles, assignments included; the first scenario stays alive next to it
            self.shadow = {"sc": self.sc, "stash": self.stash, "contained": dict(self.contained),
                           "assigned": copy.deepcopy(self.assigned), "grown": set(self.grown)}
            self.probe("fork-by-cut-out")
            try:
                old = self.sc
                new = Scenario(dt=old.dt, scenario_id=copy.deepcopy(old.scenario_id), author=old.author,
                               tags=set(old.tags or ()), affiliation=old.affiliation, source=old.source,
                               location=copy.deepcopy(old.location))
                new.add_objects(LaneletNetwork.create_from_lanelet_network(old.lanelet_network))
                for ob in self.sc.obstacles:
                    new.add_objects(copy.deepcopy(ob))
            except Exception as e:  # noqa
                raise Violation(f"C07/cutout-raised/<-{self.last}",
                                f"building a second scenario on a derived network raised {type(e).__name__}: {e}")
            self.sc, self.stash = new, {}
            return "ok"
        self.shadow = None if not op.get("keep") else self.shadow
        if self.dir is None:
            self.dir = tempfile.mkdtemp(prefix="c07-", dir=SCRATCH_ROOT)
        fmt = FileFormat.XML if how.startswith("xml") else FileFormat.PROTOBUF
        path = os.path.join(self.dir, "rt" + fmt.value)
        assign = how.endswith("+assign")
        try:
            CommonRoadFileWriter(self.sc, PlanningProblemSet(), decimal_precision=8, file_format=fmt).write_to_file(
                path, OverwriteExistingFile.ALWAYS)
            self.sc, _ = CommonRoadFileReader(path, fmt).open(lanelet_assignment=assign)
        except Exception as e:  # noqa
            raise Violation(f"C07/file-roundtrip-raised/<-{self.last}",
                            f"write + open(lanelet_assignment={assign}) raised {type(e).__name__}: {str(e)[:200]}")
        self.stash = {}
        got = sorted(o.obstacle_id for o in self.sc.obstacles)
        if got != sorted(self.contained):
            raise Violation(f"C07/obstacles-lost-in-roundtrip/<-{self.last}",
                            f"file round trip returned obstacles {got}, expected {sorted(self.contained)}")
        for i, k in self.contained.items():
            self.assigned[i] = assign and k in ("static", "dynamic")  # set-based obstacles stay unassigned
        if assign and any(k == "dynamic" and self._nopred(i) for i, k in self.contained.items()):
            self.probe("dynamic-without-prediction-read-with-assignment")
        return "ok"

    def _nopred(self, oid):
        ob = self.sc.obstacle_by_id(oid)
        return isinstance(ob, DynamicObstacle) and ob.prediction is None


# ------------------------------------------------------------------ clients
def _adder(rng, run, cfg):
    while True:
        if run.shadow is not None and rng.chance(0.25):
            yield {"op": "swap"}
            continue
        free = [k for k in sorted(run.pool) if run.pool[k]["id"] not in run.contained and
                run.pool[k]["id"] not in run.stash]
        yield {"op": "add", "key": rng.pick(free), "preassign": rng.chance(0.3)} if free else None


def _assigner(rng, run, cfg):
    while True:
        c = sorted(i for i, k in run.contained.items() if k in ("static", "dynamic"))
        op = {"op": "assign", "ids": None, "form": rng.choice(["set", "set", "list", "tuple"]),
              "ts_form": rng.choice(["list", "tuple", "range"])}
        if c and rng.chance(0.5):
            op["ids"] = sorted(rng.subset(c, 0.5, at_least=1))
        if rng.chance(cfg.get("p_time_steps", 0.0)):
            dyn = [run.sc.obstacle_by_id(i) for i in (op["ids"] or c) if run.contained.get(i) == "dynamic"]
            lo = max([o.initial_state.time_step for o in dyn if o is not None], default=0)
            op["time_steps"] = rng.sample(range(lo, lo + 6), rng.randint(1, 4))  # any order, possibly past a horizon
        if not run.enabled(op):
            op.pop("time_steps", None)
        if not run.enabled(op) and c:
            op["ids"] = sorted(rng.subset(c, 0.6, at_least=1))
        yield op if run.enabled(op) else None


def _shrinker(rng, run, cfg):
    n = 0
    while True:
        have = sorted(la.lanelet_id for la in run.sc.lanelet_network.lanelets)
        if len(have) < 2 or not rng.chance(0.4):
            yield None
            continue
        n += 1
        op = {"op": "shrink", "ids": rng.sample(have, rng.randint(1, min(2, len(have) - 1))), "pos": rng.randrange(3),
              "n": n}
        cands = sorted(i for i, k in run.contained.items() if k in ("static", "dynamic"))
        if cands and rng.chance(0.5):
            op["then_remove"] = rng.pick(cands)
        op["readd"] = rng.chance(0.4)
        yield op if run.enabled(op) else None


def _grower(rng, run, cfg):
    while True:
        free = sorted(la["id"] for la in run.late if la["id"] not in run.grown)
        if not free or not rng.chance(0.5):
            yield None
            continue
        op = {"op": "grow", "ids": rng.sample(free, rng.randint(1, len(free))),
              "form": rng.choice(["single", "list", "list+refused"])}
        yield op if run.enabled(op) else None


def _remover(rng, run, cfg):
    while True:
        c = sorted(run.contained)
        if not c:
            yield None
            continue
        form = rng.choice(["single", "list"])
        n = 1 if form == "single" else rng.randint(1, min(3, len(c)))
        yield {"op": "remove", "ids": rng.sample(c, n), "form": form, "as_copy": rng.chance(0.25)}


def _readder(rng, run, cfg):
    while True:
        c = sorted(i for i in run.stash if i not in run.contained)
        yield {"op": "readd", "id": rng.pick(c)} if c else None


def _restarter(rng, run, cfg):
    while True:
        if run.shadow is not None and rng.chance(0.4):
            yield {"op": "swap"}
            continue
        how = rng.pick(cfg["restart_kinds"])
        op = {"op": "restart", "how": how}
        if how == "deepcopy":
            op["keep"] = rng.chance(0.6)
        yield op


RESTARTS = ["deepcopy", "xml+assign", "pb+assign", "xml", "pb", "cutout"]


class C07(Property):
    id = "C07"
    title = "Obstacle-lanelet assignment is geometrically correct and invertible"
    tiers = {"quick": {"runs": 5000, "wall": 240, "chunk": 25}, "thorough": {"runs": 200000, "wall": 1700, "chunk": 50}}
    expected_probes = ["obstacle-on-several-lanelets", "shape-touches-lanelet-center-is-not-in", "assigned-shape-rect",
                       "assigned-shape-circ", "assigned-shape-poly", "assigned-shape-group", "remove-after-assign",
                       "readd-after-remove", "readd-after-remove-assigned", "restart-deepcopy", "restart-xml+assign",
                       "restart-pb+assign", "restart-xml", "dynamic-without-prediction-read-with-assignment",
                       "partially-assigned-obstacle-checked", "standing-obstacle-turns-on-the-spot",
                       "fork-keeps-original", "continued-on-the-other-copy", "creeping-obstacle-crosses-boundary",
                       "set-based-bystander-present", "center-on-lanelet-the-shape-does-not-touch",
                       "second-scenario-with-other-lanelet-ids",
                       "pre-assigned-obstacle-added", "footprint-exactly-tangent-to-a-lanelet",
                       "network-grown:single", "network-grown:list", "network-grown:list+refused",
                       "map-shrunk:list-removal-interrupted", "obstacle-removed-after-its-lanelet-left",
                       "removed-by-an-equal-copy", "fork-by-cut-out",
                       "map-shrunk:lanelets-came-back-under-their-ids"]
    assumptions = [
        "geometric truth comes from crkit.geom with its don't-care band; the footprint at a time step is read from the "
        "parameters of occupancy_at_time(t).shape (whether that occupancy is the right placement is C04)",
        "set-based dynamic obstacles are not part of the universes (the property's quantifier excludes them and "
        "assign_obstacles_to_lanelets cannot handle them today); environment and phantom obstacles are by-standers",
        "assign_obstacles_to_lanelets is called with use_center_only=False, for all time steps or for a list of time "
        "steps none of which precedes the initial time step of a selected dynamic obstacle",
        "the XML restart writes with 8 decimals; truth is recomputed on the geometry that was read back",
    ]

    def gen_config(self, rng):
        return {"steps": rng.randint(5, 20), "p_time_steps": rng.pick([0.0, 0.3, 0.6]),
                "relabelled_twin": rng.chance(0.3), "shrinks": rng.chance(0.25), "restart_kinds": sorted(rng.subset(RESTARTS, 0.5, at_least=1)),
                "restarts": rng.chance(0.6), "clients": sorted(rng.subset(["adder", "assigner", "remover", "readder"],
                                                                          0.85, at_least=2))}

    def gen_universe(self, rng, cfg):
        ids = gen.IdAlloc(rng, 1, 300, zero=0.15)
        lattice = rng.chance(0.2)
        net = gen.gen_network(rng, rows=rng.randint(1, 3), cols=rng.randint(1, 2), ids=ids, signs=False, lights=False,
                              intersections=False, stop_lines=False, overlap=rng.chance(0.5), types=False, far=0.3,
                              lattice=lattice)
        net.pop("_geom", None)
        if rng.chance(0.2):
            # two lanelets with different ids and coincident geometry (e.g. a tram lanelet lying on a road lanelet)
            src = rng.pick(net["lanelets"])
            net["lanelets"].append({"id": ids.take(), "left": src["left"], "center": src["center"],
                                    "right": src["right"], "pred": [], "succ": []})
        obstacles = {}
        for j in range(rng.randint(1, 5)):
            role = rng.weighted(["static", "dynamic", "dynamic_nopred", "env", "phantom", "dynamic_set"],
                                [4, 5, 2, 0.5, 0.5, 0.7])
            kinds = ("rect", "circ", "poly", "group") if rng.chance(0.25) else ("rect", "circ", "poly")
            spec = gen.gen_obstacle(rng, ids.take(), net, role=role, shape_kinds=kinds, on_road=0.85,
                                    state_cls=rng.choice(["ks", "st"]), horizon=rng.randint(1, 4), p_stand=0.25,
                                    offset_p=0.25)
            if spec.get("shape", {}).get("t") in ("rect", "poly") and rng.chance(0.3):
                # long vehicles reach into neighbouring lanelets while their centre stays in one
                if spec["shape"]["t"] == "rect":
                    spec["shape"]["l"] *= 2.5
                    spec["shape"]["w"] *= 1.8
            if lattice and spec["role"] in ("static", "dynamic") and rng.chance(0.8):
                # axis-parallel boxes on lattice positions: their borders often coincide with lanelet borders
                spec["shape"] = {"t": "rect", "l": float(rng.choice([2, 4, 6])), "w": float(rng.choice([2, 4]))}
                x0, y0 = float(round(spec["init"]["pos"][0])), float(round(spec["init"]["pos"][1]))
                spec["init"]["pos"], spec["init"]["ori"] = [x0, y0], 0.0
                if spec.get("pred") and spec["pred"]["kind"] == "traj":
                    step = float(rng.choice([0, 1, 2]))
                    for n, st in enumerate(spec["pred"]["states"], start=1):
                        st["pos"], st["ori"] = [x0 + n * step, y0], 0.0
            obstacles[f"o{j}"] = spec
        if rng.chance(0.3) and not lattice:
            # a vehicle creeping across a lanelet boundary in tiny steps (the centre changes lanelet although
            # consecutive positions are almost equal)
            la = rng.pick(net["lanelets"])
            k = rng.randrange(len(la["left"]) - 1)
            side = rng.choice(["left", "right"])
            bx = (la[side][k][0] + la[side][k + 1][0]) / 2
            by = (la[side][k][1] + la[side][k + 1][1]) / 2
            cx = (la["center"][k][0] + la["center"][k + 1][0]) / 2
            cy = (la["center"][k][1] + la["center"][k + 1][1]) / 2
            d = math.hypot(bx - cx, by - cy)
            nx, ny = (bx - cx) / d, (by - cy) / d  # from the centre line towards the boundary
            step = rng.choice([0.004, 0.004, 0.05, 0.6])
            n = rng.randint(3, 6)
            k0 = rng.uniform(0.3, n - 0.3)  # the boundary is crossed between two of the steps
            th = math.atan2(ny, nx)
            t0 = rng.randint(0, 2)
            pts = [[bx + (i - k0) * step * nx, by + (i - k0) * step * ny] for i in range(n + 1)]
            oid = ids.take()
            obstacles["creeper"] = {
                "id": oid, "role": "dynamic", "type": "CAR", "signal_series": [],
                "shape": {"t": "rect", "l": rng.uniform(0.3, 2.0), "w": rng.uniform(0.3, 1.5)},
                "init": {"t": t0, "pos": pts[0], "ori": th, "vel": step * 10, "acc": 0.0, "yaw": 0.0, "slip": 0.0},
                "pred": {"kind": "traj", "states": [{"cls": "ks", "t": t0 + i, "pos": pts[i], "ori": th,
                                                     "vel": step * 10, "steer": 0.0} for i in range(1, n + 1)]}}
        if rng.chance(0.15) and net["lanelets"]:
            # a vehicle with a long prediction (tens of states) that travels across several lanelets: whatever the
            # library does per batch / chunk / above a size threshold only shows on horizons of this length
            spec = gen.gen_obstacle(rng, ids.take(), net, role="dynamic", shape_kinds=("rect", "poly"), on_road=1.0,
                                    state_cls=rng.choice(["ks", "st"]), horizon=rng.randint(10, 36),
                                    t0=rng.randint(0, 2))
            obstacles["hauler"] = spec
        late = []
        if len(net["lanelets"]) >= 2 and rng.chance(0.35):
            # some lanelets of the map only join while the run is under way (obstacles were placed with them in mind)
            gone = set(rng.sample([la["id"] for la in net["lanelets"]], rng.randint(1, min(2, len(net["lanelets"]) - 1))))
            keep = []
            for la in net["lanelets"]:
                la = dict(la, pred=[x for x in la.get("pred", []) if x not in gone and la["id"] not in gone],
                          succ=[x for x in la.get("succ", []) if x not in gone and la["id"] not in gone])
                for side in ("adjl", "adjr"):
                    if la.get(side) in gone or (la["id"] in gone and side in la):
                        la.pop(side), la.pop(side + "_same", None)
                (late if la["id"] in gone else keep).append(la)
            net = dict(net, lanelets=keep)
        return {"network": net, "obstacles": obstacles, "late_lanelets": late}

    def new_run(self, universe, cfg):
        return Run(universe, cfg)

    def make_clients(self, rng, cfg, run):
        table = {"adder": (_adder, 3.0), "assigner": (_assigner, 2.0), "remover": (_remover, 1.5),
                 "readder": (_readder, 1.5)}
        out = []
        names = list(cfg["clients"])
        if "adder" not in names:
            names.append("adder")
        for n in names:
            fn, w = table[n]
            out.append(Client(n, w, fn(rng.sub(n), run, cfg)))
        if cfg["restarts"]:
            out.append(Client("restarter", 0.8, _restarter(rng.sub("r"), run, cfg)))
        if run.late:
            out.append(Client("grower", 1.0, _grower(rng.sub("g"), run, cfg)))
        if cfg.get("shrinks"):
            out.append(Client("shrinker", 0.5, _shrinker(rng.sub("s"), run, cfg)))
        return out

    def prune_universe(self, universe, trace):
        used = {e["op"]["key"] for e in trace if e["op"]["op"] == "add"}
        small = dict(universe, obstacles={k: v for k, v in universe["obstacles"].items() if k in used})
        if small != universe:
            yield small
        grown = {i for e in trace if e["op"]["op"] == "grow" for i in e["op"]["ids"]}
        if any(la["id"] not in grown for la in universe.get("late_lanelets", [])):
            yield dict(universe, late_lanelets=[la for la in universe["late_lanelets"] if la["id"] in grown])
        net = universe["network"]
        if len(net["lanelets"]) > 1:
            for i in range(len(net["lanelets"])):
                gone = net["lanelets"][i]["id"]
                keep = []
                for la in net["lanelets"][:i] + net["lanelets"][i + 1:]:
                    la = dict(la, pred=[x for x in la.get("pred", []) if x != gone],
                              succ=[x for x in la.get("succ", []) if x != gone])
                    if la.get("adjl") == gone:
                        la.pop("adjl"), la.pop("adjl_same", None)
                    if la.get("adjr") == gone:
                        la.pop("adjr"), la.pop("adjr_same", None)
                    keep.append(la)
                yield dict(universe, network=dict(net, lanelets=keep))

    def simplify_op(self, op):
        if op["op"] == "add" and op.get("preassign"):
            yield dict(op, preassign=False)
        if op["op"] == "remove" and len(op["ids"]) > 1:
            for i in range(len(op["ids"])):
                yield dict(op, ids=op["ids"][:i] + op["ids"][i + 1:])
        if op["op"] == "assign" and op["ids"] is not None:
            yield dict(op, ids=None)
        if op["op"] == "assign" and op.get("time_steps") is not None:
            yield {k: v for k, v in op.items() if k != "time_steps"}
            if len(op["time_steps"]) > 1:
                for i in range(len(op["time_steps"])):
                    yield dict(op, time_steps=op["time_steps"][:i] + op["time_steps"][i + 1:])
        if op["op"] == "restart" and op["how"] != "deepcopy":
            yield dict(op, how="deepcopy")
        if op["op"] == "grow":
            if len(op["ids"]) > 1:
                for i in range(len(op["ids"])):
                    yield dict(op, ids=op["ids"][:i] + op["ids"][i + 1:])
            if op["form"] != "single":
                yield dict(op, form="single")

    def describe_sim_time(self, sim_time, steps):
        return {"unit": "logical steps (one public API call each); the property has no clock", "steps": steps}

    def components(self):
        return {"real": ["commonroad Scenario (add/remove/assign), LaneletNetwork lookups, Lanelet registries, "
                         "XML and protobuf writer + reader with lanelet assignment", "copy.deepcopy",
                         "tmpfs scratch directory"],
                "stub": ["none; the geometric oracle crkit.geom is independent code"]}


PROPERTY = C07()
