"""C06 — spatial lookups agree with the geometry they index.

Simulation target: the index (buffered polygons, STRtree, id(polygon) -> lanelet id map) mirrors the
current lanelets for networks built through ANY construction history and persistence round trip.
Side condition (pure, sampled): each shape's contains_point and exported geometry denote the same set.
Oracle: brute-force scan over the current lanelets' raw vertices by crkit.geom (three-valued).
"""
import copy
import math
import os
import pickle
import shutil
import tempfile

import numpy as np

from commonroad.common.file_reader import CommonRoadFileReader
from commonroad.common.file_writer import CommonRoadFileWriter
from commonroad.common.util import FileFormat
from commonroad.common.writer.file_writer_interface import OverwriteExistingFile
from commonroad.planning.planning_problem import PlanningProblemSet
from commonroad.scenario.lanelet import LaneletNetwork
from commonroad.scenario.scenario import Scenario
from shapely.geometry import Point as SPoint

from crkit import build, gen, geom
from simkit.engine import Client, HarnessError, Property, RunBase, Violation

SCRATCH_ROOT = "/dev/shm" if os.path.isdir("/dev/shm") else tempfile.gettempdir()
XML_PREC = 6


def _new_scenario():
    return Scenario(dt=0.1, scenario_id=build.build_scenario_id({"country": "DEU"}), author="sim", tags=set(),
                    affiliation="verif", source="generated")


class Run(RunBase):
    def __init__(self, universe, cfg):
        super().__init__(universe, cfg)
        self.sc = _new_scenario()
        self.pool = universe["lanelets"]  # key -> spec
        self.present = {}  # lanelet id -> {"left": array, "right": array}   (expected primary data)
        self.obstacles = [build.build_obstacle(o) for o in universe["obstacles"]]
        self.dir = None
        self.route = "empty"
        self.tol = 0.0
        self.sc_known = set()  # ids the current Scenario object has reserved
        self.shadow = None  # the sibling instance after a copy that keeps the original alive
        if cfg.get("relabelled_twin"):
            # a second, different network in the same process: the same geometry under other lanelet ids.  Answers
            # kept per class / per module instead of per network would leak from one into the other.
            specs = [dict(v, id=v["id"] + 1000, pred=[], succ=[]) for k, v in sorted(self.pool.items())
                     if k.startswith("l")]
            for sp in specs:
                for kx in ("adjl", "adjl_same", "adjr", "adjr_same"):
                    sp.pop(kx, None)
            try:
                sc2 = _new_scenario()
                sc2.add_objects(LaneletNetwork.create_from_lanelet_list([build.build_lanelet(sp) for sp in specs]))
                self.shadow = {"sc": sc2, "sc_known": {sp["id"] for sp in specs}, "route": "create_from_lanelet_list",
                               "present": {sp["id"]: {"left": np.array(sp["left"], dtype=float),
                                                      "right": np.array(sp["right"], dtype=float)} for sp in specs}}
                self.probe("second-network-with-other-lanelet-ids")
            except Exception as e:  # noqa   building well-formed lanelets must not fail: reported at the first step
                self._deferred = Violation("C06/construction-raised<-create_from_lanelet_list",
                                           f"building a network from well-formed lanelets raised {type(e).__name__}: {e}")

    _FIELDS = ("sc", "present", "sc_known", "route")

    def _swap(self):
        cur = {f: getattr(self, f) for f in self._FIELDS}
        for f in self._FIELDS:
            setattr(self, f, self.shadow[f])
        self.shadow = cur

    def _check_shadow(self):
        """A copy and its original are independent networks: whatever happens to one, the index of the other keeps
        mirroring ITS lanelets."""
        if self.shadow is None:
            return
        self._swap()
        try:
            self._panel()
        except Violation as v:
            raise Violation(v.signature.replace("C06/", "C06/sibling-affected/", 1),
                            "the OTHER network (original / copy made earlier) answers wrongly after an operation on this "
                            "one: " + v.message, v.detail)
        finally:
            self._swap()

    def close(self):
        if self.dir:
            shutil.rmtree(self.dir, ignore_errors=True)

    @property
    def net(self) -> LaneletNetwork:
        return self.sc.lanelet_network

    def enabled(self, op):
        k = op["op"]
        ids = {self.pool[x]["id"] for x in op.get("keys", []) if x in self.pool}
        if k == "create_from_list":
            return all(x in self.pool for x in op["keys"]) and len(ids) == len(op["keys"]) and len(ids) > 0
        if k == "add_clash":
            # a lanelet whose id is already in the network: documented to be refused with a warning, nothing changes
            return all(x in self.pool for x in op["keys"]) and len(op["keys"]) > 0 and \
                any(self.pool[x]["id"] in self.present for x in op["keys"]) and \
                len({self.pool[x]["id"] for x in op["keys"]}) == len(op["keys"])
        if k in ("add_one", "scenario_add"):
            if k == "scenario_add" and op["key"] in self.pool and self.pool[op["key"]]["id"] in self.sc_known:
                return False  # the scenario's id pool still holds the id (freeing ids is C09's business)
            return op["key"] in self.pool and self.pool[op["key"]]["id"] not in self.present
        if k == "add_from_network":
            return all(x in self.pool for x in op["keys"]) and len(ids) == len(op["keys"]) and len(ids) > 0 and \
                not (ids & set(self.present))
        if k == "scenario_add_list":
            # free lanelets followed by one whose id this scenario has reserved already
            keys = op["keys"]
            return len(keys) >= 2 and all(x in self.pool for x in keys) and len(ids) == len(keys) and \
                not (ids & set(self.present)) - {self.pool[keys[-1]]["id"]} and \
                all(self.pool[x]["id"] not in self.sc_known for x in keys[:-1]) and \
                self.pool[keys[-1]]["id"] in self.sc_known and self.pool[keys[-1]]["id"] in self.present
        if k == "add_batch":
            return all(x in self.pool for x in op["keys"]) and len(ids) == len(op["keys"]) >= 2 and \
                not (ids & set(self.present))
        if k == "replace_geometry":
            return op["key"] in self.pool and op["key"].startswith("x") and self.pool[op["key"]]["id"] in self.present
        if k == "add_deferred":
            return op["key"] in self.pool and self.pool[op["key"]]["id"] not in self.present
        if k == "move":
            return bool(self.present)
        if k == "add_copy":
            return op["id"] in self.present and op["new_id"] not in self.present and \
                op["new_id"] not in self.sc_known and op["new_id"] >= 5000
        if k == "remove":
            return op["id"] in self.present
        if k == "scenario_remove_list":
            return len(op["ids"]) > 0 and len(set(op["ids"])) == len(op["ids"]) and \
                all(i in self.present and i in self.sc_known for i in op["ids"])
        if k == "cut_out":
            return op["lanelet"] in self.present
        if k in ("q_pos", "q_shape"):
            return all(("far" in p) or p["lanelet"] in self.present for p in op.get("pts", [op]))
        if k == "swap":
            return self.shadow is not None
        if k == "bystander":
            return bool(self.present)
        return k in ("restart", "panel")

    # ------------------------------------------------------------------ model helpers
    def _expect(self, spec):
        self.present[spec["id"]] = {"left": np.array(spec["left"], dtype=float),
                                    "right": np.array(spec["right"], dtype=float)}

    def _sig(self, what):
        return f"C06/{what}<-{self.route}"

    # ------------------------------------------------------------------ the oracle
    def _check_members(self):
        got = sorted(la.lanelet_id for la in self.net.lanelets)
        if got != sorted(self.present):
            raise Violation(self._sig("lanelet-set"),
                            f"network holds lanelets {got}, expected {sorted(self.present)} after route {self.route}")
        for la in self.net.lanelets:
            e = self.present[la.lanelet_id]
            for side, arr in (("left", la.left_vertices), ("right", la.right_vertices)):
                a = np.asarray(arr, dtype=float)
                if a.shape != e[side].shape or np.max(np.abs(a - e[side])) > self.tol:
                    raise Violation(self._sig("vertices-changed"),
                                    f"lanelet {la.lanelet_id} {side} boundary changed by construction route "
                                    f"{self.route}")

    def _polys(self):
        out = {}
        for la in self.net.lanelets:
            ring = geom.lanelet_ring(la.left_vertices, la.right_vertices)
            out[la.lanelet_id] = (geom.ring_polygon(ring), ring)
        return out

    def _check_points(self, points, polys):
        if not points or (self.route == "empty" and not self.present):
            return  # a network on which no construction route ran yet has no index at all
        if len(points) == 1:
            points = list(points) * 2  # Lanelet.contains_points wants a polyline (>= 2 points)
        lat = {i: geom.lattice_ring(ring) for i, (_, ring) in polys.items()}
        if self._index_deferred():
            # the caller has asked for the index to be brought up to date later: only the index-free answer is checked
            self.probe("index-deferred:only-index-free-answers-checked")
            self._check_contains(points, polys, lat)
            return
        try:
            self._form = getattr(self, "_form", 0) + 1
            if self._form % 3 == 0:
                res_raw = self.net.find_lanelet_by_position([[float(p[0]), float(p[1])] for p in points])
            else:
                res_raw = self.net.find_lanelet_by_position([np.array(p, dtype=float) for p in points])
        except Exception as e:  # noqa
            raise Violation(self._sig("find_lanelet_by_position-raised"),
                            f"find_lanelet_by_position raised {type(e).__name__}: {e} after route {self.route}")
        res = [list(x) for x in res_raw]
        for x in res_raw:
            x.append(-7)  # the caller may do what it likes with the returned lists: later answers must not care
        for p, got in zip(points, res):
            pl = geom.on_lattice(p)
            truth = {i: geom.point_in_ring(poly, ring, p, exact=pl and lat[i]) for i, (poly, ring) in polys.items()}
            if pl and any(lat[i] and poly.touches(SPoint(float(p[0]), float(p[1]))) for i, (poly, _) in polys.items()):
                self.probe("lattice-point-exactly-on-a-lanelet-border")
            missing, extra = geom.compare_sets(got, truth)
            if missing or extra or len(got) != len(set(got)):
                raise Violation(self._sig("find_lanelet_by_position"),
                                f"point {list(map(float, p))}: got {sorted(got)}, geometric truth "
                                f"{sorted(i for i, v in truth.items() if v)} (missing {missing}, wrongly returned "
                                f"{extra}) after route {self.route}")
            if any(v is True for v in truth.values()):
                self.probe("point-inside")
            if sum(1 for v in truth.values() if v is True) >= 2:
                self.probe("point-in-two-lanelets")
                inside = [i for i, v in truth.items() if v is True]
                if any(np.array_equal(self.present[a]["left"], self.present[b]["left"]) and
                       np.array_equal(self.present[a]["right"], self.present[b]["right"])
                       for a in inside for b in inside if a < b):
                    self.probe("coincident-lanelets")
        self._check_contains(points, polys, lat)

    def _index_deferred(self):
        return id(self.net) in getattr(self, "_deferred_nets", set())

    def _check_contains(self, points, polys, lat):
        arr = np.array([[float(p[0]), float(p[1])] for p in points])
        for la in self.net.lanelets:
            poly, ring = polys[la.lanelet_id]
            got = la.contains_points(arr)
            for p, g in zip(points, got):
                t = geom.point_in_ring(poly, ring, p, exact=geom.on_lattice(p) and lat[la.lanelet_id])
                if t is not None and bool(g) != t:
                    raise Violation(self._sig("Lanelet.contains_points"),
                                    f"lanelet {la.lanelet_id}.contains_points({list(map(float, p))}) = {bool(g)}, "
                                    f"geometric truth {t}")

    def _check_shape(self, shape_spec, polys, shape=None):
        shape = build.build_shape(shape_spec) if shape is None else shape
        raw = geom.raw_shape(shape)
        self._check_shape_semantics(shape, raw)
        if (self.route == "empty" and not self.present) or self._index_deferred():
            return  # a network on which no construction route ran yet has no index at all
        try:
            got_raw = self.net.find_lanelet_by_shape(shape)
            got = list(got_raw)
            got_raw.append(-7)  # scribble on the returned list (see _check_points)
            got_raw.reverse()
        except Exception as e:  # noqa
            raise Violation(self._sig("find_lanelet_by_shape-raised"),
                            f"find_lanelet_by_shape({raw['t']}) raised {type(e).__name__}: {e}")
        # the index has to mirror what the shape's exported geometry denotes (for circles see the open known
        # finding handled in _check_shape_semantics)
        lr = geom.lattice_raw(raw)
        truth = {i: geom.shape_meets_polygon(geom.exported(raw), poly, exact=lr and geom.lattice_ring(ring))
                 for i, (poly, ring) in polys.items()}
        if lr and any(geom.lattice_ring(ring) and poly.touches(geom._poly_of(raw)) for poly, ring in polys.values()):
            self.probe("lattice-shape-exactly-tangent-to-a-lanelet")
        missing, extra = geom.compare_sets(got, truth)
        if missing or extra or len(got) != len(set(got)):
            raise Violation(self._sig(f"find_lanelet_by_shape[{raw['t']}]"),
                            f"{raw['t']} {_fmt(raw)}: got {sorted(got)}, geometric truth "
                            f"{sorted(i for i, v in truth.items() if v)} (missing {missing}, wrongly returned {extra}) "
                            f"after route {self.route}")
        self.probe(f"shape-query-{raw['t']}")
        if sum(1 for v in truth.values() if v is True) >= 2:
            self.probe("shape-meets-several-lanelets")

    def _check_shape_semantics(self, shape, raw):
        """side condition (ii): contains_point and exported geometry denote the closed-form set"""
        for p in geom.sample_points(raw):
            t = geom.point_in_shape(raw, p)
            if t is None:
                continue
            if raw["t"] == "circ":
                d = float(np.hypot(p[0] - raw["c"][0], p[1] - raw["c"][1]))
                in_band = (1 - geom.CIRCLE_BAND) * raw["r"] <= d <= raw["r"] + geom.EPS
            else:
                in_band = False
            g = bool(shape.contains_point(np.array(p, dtype=float)))
            if g != t:
                raise Violation(f"C06/shape-semantics/contains_point[{raw['t']}]",
                                f"{raw['t']} {_fmt(raw)}.contains_point({list(p)}) = {g}, closed form says {t}")
            if raw["t"] == "circ" and geom.circle_export_scale() != 1.0:
                continue  # exported geometry of circles: open known finding, checked as a whole below
            if raw["t"] != "group" and not in_band:
                e = bool(shape.shapely_object.intersects(SPoint(p[0], p[1])))
                if e != t:
                    raise Violation(f"C06/shape-semantics/shapely_object[{raw['t']}]",
                                    f"{raw['t']} {_fmt(raw)}: exported geometry contains {list(p)} = {e}, the shape "
                                    f"denotes {t} there")
        if raw["t"] == "rect":
            # the corner points a rectangle reports are the corners of the l-by-w box at its pose
            mine = sorted((round(x, 7), round(y, 7)) for x, y in geom.rect_corners(raw["l"], raw["w"], raw["c"], raw["o"]))
            theirs = sorted({(round(float(x), 7), round(float(y), 7)) for x, y in np.asarray(shape.vertices)})
            if len(theirs) != 4 or max(abs(a - b) for p, q in zip(mine, theirs) for a, b in zip(p, q)) > 1e-6:
                raise Violation("C06/shape-semantics/vertices[rect]",
                                f"rect {_fmt(raw)}: reported corner points {theirs} are not the corners of the box "
                                f"{mine}")
        if raw["t"] == "circ" and geom.circle_export_scale() != 1.0:
            a, ea = float(shape.shapely_object.area), geom.shape_area(geom.exported(raw))
            if abs(a - ea) > 0.01 * ea:
                raise Violation("C06/shape-semantics/area[circ]",
                                f"circ {_fmt(raw)}: exported geometry has area {a:.6g}; neither the disc of radius r "
                                f"nor the known half-radius disc ({ea:.6g})")
            self.soft("C06/shape-semantics/circle-exports-half-radius",
                      f"Circle(radius=r).shapely_object is the disc of radius r/2 (area {a:.4g} for r={raw['r']:.4g}) "
                      f"while contains_point uses radius r: containment test and exported geometry denote "
                      f"different sets")
            return
        if raw["t"] != "group":
            a, ea = float(shape.shapely_object.area), geom.shape_area(raw)
            tol = 0.01 if raw["t"] == "circ" else 1e-9
            if abs(a - ea) > tol * max(ea, 1e-12):
                raise Violation(f"C06/shape-semantics/area[{raw['t']}]",
                                f"{raw['t']} {_fmt(raw)}: exported geometry has area {a:.6g}, the shape denotes "
                                f"{ea:.6g}")

    def _check_obstacles(self, polys):
        obs = self.obstacles
        if not obs or not polys:
            return
        # obstacles are identified by OBJECT (position in the candidate list): a candidate list may hold different
        # obstacles with one id (e.g. collected from two recordings)
        truth = {}
        idx = {id(o): k for k, o in enumerate(obs)}
        for k, o in enumerate(obs):
            raw = geom.exported(geom.raw_shape(o.occupancy_at_time(0).shape))
            for i, (poly, _) in polys.items():
                truth[(k, i)] = geom.shape_meets_polygon(raw, poly)
        if len({o.obstacle_id for o in obs}) < len(obs):
            self.probe("candidate-list-with-repeated-obstacle-id")
        try:
            mapping = self.net.map_obstacles_to_lanelets(obs)
            filt = self.net.filter_obstacles_in_network(obs)
            # (alternately with the time step spelled out and left at its default, which is 0)
            per_lanelet = {la.lanelet_id: (la.get_obstacles(obs, 0) if n % 2 else la.get_obstacles(obs))
                           for n, la in enumerate(self.net.lanelets)}
        except Exception as e:  # noqa
            raise Violation(self._sig("obstacle-mapping-raised"),
                            f"get_obstacles / map_obstacles_to_lanelets raised {type(e).__name__}: {e}")
        for i in polys:
            got_a = {idx.get(id(o), -1) for o in mapping.get(i, [])}
            got_b = {idx.get(id(o), -1) for o in per_lanelet[i]}
            for k, o in enumerate(obs):
                t = truth[(k, i)]
                if t is None:
                    continue
                for name, got in (("map_obstacles_to_lanelets", got_a), ("Lanelet.get_obstacles", got_b)):
                    if (k in got) != t:
                        raise Violation(self._sig(name),
                                        f"{name}: obstacle #{k} (id {o.obstacle_id}) on lanelet {i} = {k in got}, "
                                        f"geometric truth {t} (shape {geom.raw_shape(o.occupancy_at_time(0).shape)['t']})")
        if len({o.obstacle_id for o in obs}) < len(obs):
            return  # filter_obstacles_in_network de-duplicates by obstacle equality: only checked for unique ids
        got_f = {idx.get(id(o), -1) for o in filt}
        for k, o in enumerate(obs):
            ts = [truth[(k, i)] for i in polys]
            if any(t is True for t in ts):
                t = True
            elif any(t is None for t in ts):
                continue
            else:
                t = False
            if (k in got_f) != t:
                raise Violation(self._sig("filter_obstacles_in_network"),
                                f"filter_obstacles_in_network: obstacle {o.obstacle_id} returned = "
                                f"{k in got_f}, geometric truth {t}")
        self.probe("obstacle-mapping-checked")

    def _panel(self):
        self._check_members()
        polys = self._polys()
        pts = [(987.0, -654.0)] + list(getattr(self, "ghosts", []))  # where removed lanelets used to be
        for la in self.net.lanelets:
            c, l, r = la.center_vertices, la.left_vertices, la.right_vertices
            nseg = len(c) - 1
            for k in sorted({int(round(j * (nseg - 1) / 5.0)) for j in range(6)} if nseg > 6 else range(nseg)):
                m = (c[k] + c[k + 1]) / 2
                pts.append(tuple(m))
                pts.append(tuple(m + 0.9 * ((l[k] + l[k + 1]) / 2 - m)))
                pts.append(tuple(m + 1.3 * ((r[k] + r[k + 1]) / 2 - m)))
            pts.append(tuple(l[0]))   # exact boundary vertices (shared with neighbours in the grid)
            pts.append(tuple(r[-1]))
        self._check_points(pts, polys)
        for la in self.net.lanelets[:6]:
            c = la.center_vertices
            m = (c[0] + c[1]) / 2
            self._check_shape({"t": "rect", "l": 2.0, "w": 1.0, "c": [float(m[0]), float(m[1])], "o": 0.4}, polys)
            self._check_shape({"t": "circ", "r": 1.0, "c": [float(m[0]), float(m[1])]}, polys)
            self._check_shape({"t": "circ", "r": 6.0, "c": [float(c[-1][0]), float(c[-1][1])]}, polys)
        # bounding-box decoys: a group one of whose members lies inside a lanelet's bounding box but off the lanelet
        # (near the bbox corner farthest from it), the other member on the lanelet - in both orders.  What a pre-filter
        # on bounding boxes concluded for one member says nothing about the others.
        for la in self.net.lanelets[:3]:
            poly, _ = polys[la.lanelet_id]
            x0, y0, x1, y1 = poly.bounds
            cx, cy = (x0 + x1) / 2, (y0 + y1) / 2
            corners = [(x, y) for x in (x0, x1) for y in (y0, y1)]
            far = max(corners, key=lambda q: poly.distance(geom.SPoint(q)))
            if poly.distance(geom.SPoint(far)) < 1.0:
                continue
            self.probe("bounding-box-decoy-group")
            d = {"t": "rect", "l": 0.4, "w": 0.4, "o": 0.0,
                 "c": [far[0] + 0.3 * (1 if cx > far[0] else -1), far[1] + 0.3 * (1 if cy > far[1] else -1)]}
            c = la.center_vertices
            m = (c[0] + c[1]) / 2
            on = {"t": "rect", "l": 0.8, "w": 0.5, "o": 0.2, "c": [float(m[0]), float(m[1])]}
            self._check_shape({"t": "group", "shapes": [d, on]}, polys)
            self._check_shape({"t": "group", "shapes": [on, d]}, polys)
            self._check_shape(d, polys)
        self._check_obstacles(polys)

    # ------------------------------------------------------------------ ops
    def apply(self, op):
        if getattr(self, "_deferred", None) is not None:
            raise self._deferred
        k = op["op"]
        if k in ("add_one", "scenario_add", "add_from_network", "add_batch", "remove", "scenario_add_list", "move",
                 "add_copy", "replace_geometry"):
            # (routes that put a NEW network in place - restart, cut-out, create_from_list - leave the flag on the old
            # object, which may live on as the kept original)
            getattr(self, "_deferred_nets", set()).discard(id(self.net))  # all of these bring the index up to date
        out = getattr(self, "_op_" + k)(op)
        if k not in ("q_pos", "q_shape", "panel", "swap") and (self.cfg["panel_after_mutation"] or k == "bystander"):
            self._panel()
        if k not in ("q_pos", "q_shape", "panel", "swap"):
            self._check_shadow()
        self.note_state([self.route, sorted(self.present)])
        return out

    def _route(self, name, fn):
        self.route = name
        self.probe("route:" + name)
        try:
            return fn()
        except Violation:
            raise
        except Exception as e:  # noqa
            raise Violation(f"C06/construction-raised<-{name}", f"construction route {name} raised "
                                                                f"{type(e).__name__}: {e}")

    def _op_create_from_list(self, op):
        specs = [self.pool[k] for k in op["keys"]]

        def f():
            net = LaneletNetwork.create_from_lanelet_list([build.build_lanelet(s) for s in specs], cleanup_ids=True)
            self.sc = _new_scenario()
            self.sc.add_objects(net)
        self._route("create_from_lanelet_list", f)
        self.present = {}
        for s in specs:
            self._expect(s)
        self.sc_known = set(self.present)
        return "ok"

    def _op_add_one(self, op):
        s = self.pool[op["key"]]
        self._route("add_lanelet", lambda: self.net.add_lanelet(build.build_lanelet(s)))
        self._expect(s)
        return "ok"

    def _op_scenario_add(self, op):
        s = self.pool[op["key"]]
        # the scenario's id pool only knows lanelets added through it; ids never collide in this universe
        self._route("Scenario.add_objects(lanelet)", lambda: self.sc.add_objects(build.build_lanelet(s)))
        self._expect(s)
        self.sc_known.add(s["id"])
        return "ok"

    def _op_add_from_network(self, op):
        specs = [self.pool[k] for k in op["keys"]]

        def f():
            other = LaneletNetwork.create_from_lanelet_list([build.build_lanelet(s) for s in specs])
            self.net.add_lanelets_from_network(other)
        self._route("add_lanelets_from_network", f)
        for s in specs:
            self._expect(s)
        return "ok"

    def _op_add_batch(self, op):
        specs = [self.pool[k] for k in op["keys"]]

        def f():
            built = [build.build_lanelet(s) for s in specs]
            for la in built[:-1]:
                self.net.add_lanelet(la, rtree=False)
            self.net.add_lanelet(built[-1], rtree=True)
        self._route("add_lanelet[rtree=False..True]", f)
        for s in specs:
            self._expect(s)
        return "ok"

    def _op_add_clash(self, op):
        specs = [self.pool[k] for k in op["keys"]]
        self.faults["F-reject"] += 1

        def f():
            if op.get("via") == "network" or len(specs) > 1:
                other = LaneletNetwork.create_from_lanelet_list([build.build_lanelet(s) for s in specs])
                self.net.add_lanelets_from_network(other)
            else:
                self.net.add_lanelet(build.build_lanelet(specs[0]))
        self._route("add-with-id-clash", f)
        via_network = op.get("via") == "network" or len(specs) > 1
        for s in specs:
            if s["id"] in self.present:
                if via_network:
                    break  # add_lanelets_from_network stops adding at the first lanelet it has to refuse
                continue
            self._expect(s)
        return "ok"

    def _op_remove(self, op):
        la = self.net.find_lanelet_by_id(op["id"])
        if la is not None:
            c = la.center_vertices
            self.ghosts = (getattr(self, "ghosts", []) + [tuple((c[0] + c[1]) / 2), tuple((c[-2] + c[-1]) / 2)])[-8:]
        self._route("remove_lanelet", lambda: self.net.remove_lanelet(op["id"]))
        self.present.pop(op["id"])
        return "ok"

    def _op_move(self, op):
        """The whole network is moved (translate_rotate).  Where the lanelets end up is C05's business - the moved
        boundaries are adopted as the expected primary data - but the lookups have to follow them, also when further
        lanelets are added or removed before anybody asks."""
        self._route("translate_rotate", lambda: self.net.translate_rotate(np.array(op["d"], dtype=float), op["a"]))
        for la in self.net.lanelets:
            if la.lanelet_id in self.present:
                self.present[la.lanelet_id] = {"left": np.array(la.left_vertices, dtype=float),
                                               "right": np.array(la.right_vertices, dtype=float)}
        return "ok"

    def _op_replace_geometry(self, op):
        """A lanelet is replaced by ANOTHER lanelet carrying the same id (a map correction): removed with rtree=False,
        the new one added right away (which rebuilds the index)."""
        new = self.pool[op["key"]]

        def f():
            self.net.remove_lanelet(new["id"], rtree=False)
            self.net.add_lanelet(build.build_lanelet(new))
        la = self.net.find_lanelet_by_id(new["id"])
        if la is not None:
            c = la.center_vertices
            self.ghosts = (getattr(self, "ghosts", []) + [tuple((c[0] + c[1]) / 2)])[-8:]
        self._route("remove_lanelet(rtree=False)+add_lanelet(other geometry, same id)", f)
        self._expect(new)
        return "ok"

    def _op_add_deferred(self, op):
        """add_lanelet(..., rtree=False) and nothing else: the documented mode in which the spatial index is brought up
        to date LATER.  Until then only the answers that do not come from the index are checked (obstacle mapping,
        Lanelet.contains_points); the next operation that rebuilds the index ends this state."""
        s_ = self.pool[op["key"]]
        self._route("add_lanelet[rtree=False, index deferred]", lambda: self.net.add_lanelet(build.build_lanelet(s_),
                                                                                             rtree=False))
        self._expect(s_)
        if not hasattr(self, "_deferred_nets"):
            self._deferred_nets = set()
        self._deferred_nets.add(id(self.net))
        return "ok"

    def _op_add_copy(self, op):
        """A lanelet derived from one that is in the network: a deep copy that gets an id of its own through the
        public setter (a bus lane on top of a driving lane) and is added next to its source."""
        src = self.net.find_lanelet_by_id(op["id"])
        if src is None:
            raise HarnessError("model says lanelet present, network cannot find it")

        def f():
            dup = copy.deepcopy(src)
            dup.lanelet_id = op["new_id"]
            self.net.add_lanelet(dup)
        self._route("add_lanelet(deep copy with a new id)", f)
        self.present[op["new_id"]] = {k: v.copy() for k, v in self.present[op["id"]].items()}
        return "ok"

    def _op_scenario_remove_list(self, op):
        """Scenario.remove_lanelet([.., a lanelet the scenario does not know, ..]): the call fails half-way.  Whatever
        it removed is gone from the lookups too; what it did not reach is still found."""
        ids = op["ids"]
        objs = [self.net.find_lanelet_by_id(i) for i in ids]
        if any(o is None for o in objs):
            raise HarnessError("model says lanelet present, network cannot find it")
        for la in objs:
            c = la.center_vertices
            self.ghosts = (getattr(self, "ghosts", []) + [tuple((c[0] + c[1]) / 2)])[-8:]
        intruder = build.build_lanelet({"id": 9000 + op.get("n", 0), "left": [[900, 1], [910, 1]],
                                        "center": [[900, 0], [910, 0]], "right": [[900, -1], [910, -1]]})
        objs.insert(op["pos"] % (len(objs) + 1), intruder)
        self.faults["F-midbatch"] += 1
        self.route = "Scenario.remove_lanelet([.., foreign, ..])"
        self.probe("route:" + self.route)
        try:
            self.sc.remove_lanelet(objs)
            raised = None
        except Exception as e:  # noqa
            raised = type(e).__name__
        gone = [i for i in ids if self.net.find_lanelet_by_id(i) is None]
        for i in gone:
            self.present.pop(i)
            self.sc_known.discard(i)
        if gone:
            getattr(self, "_deferred_nets", set()).discard(id(self.net))  # a completed removal rebuilt the index
        if raised and gone:
            self.probe("list-removal-interrupted")
        return {"raised": raised, "gone": gone}

    def _op_scenario_add_list(self, op):
        """Scenario.add_objects([lanelets..., <an element that must be refused>]): the batch fails half-way; the
        lanelets taken over before the failure are in the network and have to be found by the lookups."""
        specs = [self.pool[k] for k in op["keys"]]
        self.faults["F-midbatch"] += 1
        built = [build.build_lanelet(sp) for sp in specs]
        self.route = "Scenario.add_objects([.., refused])"
        self.probe("route:" + self.route)
        try:
            self.sc.add_objects(built)
            raised = False
        except ValueError:
            raised = True
        except Exception as e:  # noqa
            raise Violation(f"C06/construction-raised<-{self.route}", f"{self.route} raised {type(e).__name__}: {e}")
        for sp in specs:
            if sp["id"] in self.sc_known:
                break  # refused here (id reserved in this scenario): everything before it was added
            self._expect(sp)
            self.sc_known.add(sp["id"])
        return {"raised": raised}

    def _op_cut_out(self, op):
        la = self.net.find_lanelet_by_id(op["lanelet"])
        c = la.center_vertices
        m = (c[0] + c[1]) / 2
        shape = build.build_shape(gen._place(op["shape"], [float(m[0]), float(m[1])], op.get("ori", 0.0)))

        def f():
            new = LaneletNetwork.create_from_lanelet_network(self.net, shape_input=shape)
            self.sc = _new_scenario()
            self.sc.add_objects(new)
        self._route("create_from_lanelet_network", f)
        # which lanelets a cut-out selects is C10's business: adopt the selection, keep the expected vertices
        kept = {x.lanelet_id for x in self.net.lanelets}
        if not kept <= set(self.present):
            raise Violation("C06/lanelet-set<-create_from_lanelet_network", f"cut-out invented lanelets "
                                                                            f"{sorted(kept - set(self.present))}")
        self.present = {i: v for i, v in self.present.items() if i in kept}
        self.sc_known = set(self.present)
        return {"kept": sorted(kept)}

    def _op_restart(self, op):
        how = op["how"]
        self.faults["F-restart"] += 1
        self.probe("restart-" + how)

        if op.get("keep") and how in ("deepcopy", "deepcopy_net", "pickle", "pickle_net") and self.present:
            self.shadow = {"sc": self.sc, "present": dict(self.present), "sc_known": set(self.sc_known),
                           "route": self.route}
            self.probe("fork-keeps-original")

        def f():
            if how == "deepcopy":
                self.sc = copy.deepcopy(self.sc)
            elif how == "deepcopy_net":
                net = copy.deepcopy(self.net)
                self.sc = _new_scenario()
                self.sc.add_objects(net)
            elif how == "pickle":
                self.sc = pickle.loads(pickle.dumps(self.sc))
            elif how == "pickle_net":
                net = pickle.loads(pickle.dumps(self.net))
                self.sc = _new_scenario()
                self.sc.add_objects(net)
            else:
                if self.dir is None:
                    self.dir = tempfile.mkdtemp(prefix="c06-", dir=SCRATCH_ROOT)
                fmt = FileFormat.XML if how in ("xml", "xml_net") else FileFormat.PROTOBUF
                path = os.path.join(self.dir, "rt" + fmt.value)
                CommonRoadFileWriter(self.sc, PlanningProblemSet(), decimal_precision=XML_PREC, file_format=fmt,
                                     tags=set()).write_to_file(path, OverwriteExistingFile.ALWAYS)
                if how == "xml_net":
                    net = CommonRoadFileReader(path, fmt).open_lanelet_network()
                    self.sc = _new_scenario()
                    self.sc.add_objects(net)
                else:
                    self.sc, _ = CommonRoadFileReader(path, fmt).open()
        if not self.present and how in ("xml", "pb", "xml_net"):
            how = "deepcopy"
        self._route("restart:" + how, f)
        if how not in ("deepcopy", "pickle"):
            self.sc_known = set(self.present)  # a new Scenario object: it knows exactly the lanelets it was given
        if how in ("xml", "xml_net"):
            # the XML writer truncates to XML_PREC decimals: re-read the primary data within that tolerance
            self.tol = max(self.tol, 0.0)
            for la in self.net.lanelets:
                e = self.present.get(la.lanelet_id)
                if e is not None:
                    for side, arr in (("left", la.left_vertices), ("right", la.right_vertices)):
                        a = np.asarray(arr, dtype=float)
                        if a.shape != e[side].shape or np.max(np.abs(a - e[side])) > 2 * 10.0 ** (-XML_PREC):
                            raise Violation(self._sig("vertices-changed"),
                                            f"lanelet {la.lanelet_id} {side} boundary changed by more than the XML "
                                            f"precision in a write->read round trip")
                    self.present[la.lanelet_id] = {"left": np.array(la.left_vertices, dtype=float),
                                                   "right": np.array(la.right_vertices, dtype=float)}
        return "ok"

    def _op_bystander(self, op):
        """Read-only use of the network between construction steps (drawing, comparing, copying without keeping):
        afterwards the lanelets are where they were and the index still mirrors them (checked by the panel)."""
        how = op["how"]
        self.route = "bystander:" + how
        self.probe("bystander-" + how)
        try:
            if how == "draw":
                import matplotlib.pyplot as plt

                from commonroad.visualization.mp_renderer import MPRenderer

                try:
                    rnd = MPRenderer()
                    self.net.draw(rnd)
                    rnd.render()
                finally:
                    plt.close("all")
            elif how == "compare":
                self.net == self.net, hash(self.net), str(self.net)  # noqa
            elif how == "copy-and-drop":
                copy.deepcopy(self.net).translate_rotate(np.array([5.0, 5.0]), 0.7)
            elif how == "derive":
                LaneletNetwork.create_from_lanelet_list(self.net.lanelets)
            elif how == "edit-returned-lists":
                # ordinary caller code: the lists the getters hand out are the caller's
                for lst in (self.net.lanelets, self.net.lanelet_polygons, self.sc.obstacles):
                    if isinstance(lst, list):
                        if lst:
                            lst.pop(0)
                        lst.reverse()
            elif how == "derive-and-move":
                # networks derived from this one's lanelets are networks of their own: working on them (moving them,
                # removing from them) is no business of this one
                for d in (LaneletNetwork.create_from_lanelet_list(self.net.lanelets, cleanup_ids=False),
                          LaneletNetwork.create_from_lanelet_list(self.net.lanelets, cleanup_ids=True),
                          LaneletNetwork.create_from_lanelet_network(self.net)):
                    d.translate_rotate(np.array([40.0, -25.0]), 0.5)
                    if d.lanelets:
                        d.remove_lanelet(d.lanelets[0].lanelet_id)
        except Exception:  # noqa   totality of these operations is not C06's business
            self.probe("bystander-raised")
        return "ok"

    def _op_swap(self, op):
        self._swap()
        self.probe("continued-on-the-other-copy")
        return "ok"

    def _op_panel(self, op):
        self._panel()
        return "ok"

    def _point(self, p):
        if "far" in p:
            return tuple(p["far"])
        if "snap" in p:
            la = self.net.find_lanelet_by_id(p["lanelet"])
            c = la.center_vertices
            k = min(p["seg"], len(c) - 1)
            return (float(round(c[k][0])) + p["snap"][0], float(round(c[k][1])) + p["snap"][1])
        la = self.net.find_lanelet_by_id(p["lanelet"])
        if la is None:
            raise HarnessError("model says lanelet present, network cannot find it")
        c, l, r = la.center_vertices, la.left_vertices, la.right_vertices
        k = min(p["seg"], len(c) - 2)
        m = c[k] + p["t"] * (c[k + 1] - c[k])
        if p.get("vertex") is not None:
            b = l if p["vertex"] == "l" else r
            return tuple(b[min(p["seg"], len(b) - 1)])
        off = p.get("off", 0.0)
        b = l if off >= 0 else r
        q = b[k] + p["t"] * (b[k + 1] - b[k])
        return tuple(m + abs(off) * (q - m))

    def _op_q_pos(self, op):
        self._check_members()
        self._check_points([self._point(p) for p in op["pts"]], self._polys())
        return "ok"

    def _op_q_shape(self, op):
        self._check_members()
        pos = self._point(op)
        via = op.get("via")
        if via is None:
            spec = gen._place(op["shape"], [float(pos[0]), float(pos[1])], op.get("ori", 0.0))
            self._check_shape(spec, self._polys())
            return "ok"
        # the query shape is itself the result of a transformation of another shape (as occupancies are)
        a = op.get("ori", 0.0)
        try:
            if via == "rotate_translate_local":
                base = build.build_shape(op["shape"])
                self._check_shape_semantics(base, geom.raw_shape(base))  # also fills the shape's lazy caches
                base.rotate_translate_local(np.array([1.5, -2.5]), a)  # one shape, several placements (as the
                # occupancies of one vehicle shape are made): an earlier placement must not leak into the next
                shape = base.rotate_translate_local(np.array([float(pos[0]), float(pos[1])]), a)
            else:
                t = np.array(op.get("d", [3.0, -2.0]), dtype=float)
                c, sn = math.cos(-a), math.sin(-a)
                q0 = [c * pos[0] - sn * pos[1] - t[0], sn * pos[0] + c * pos[1] - t[1]]
                base = build.build_shape(gen._place(op["shape"], [float(q0[0]), float(q0[1])], op.get("ori0", 0.0)))
                self._check_shape_semantics(base, geom.raw_shape(base))
                shape = base.translate_rotate(t, a)
            # deriving a shape must leave the shape it was derived from as it was
            self._check_shape_semantics(base, geom.raw_shape(base))
        except Violation:
            raise
        except Exception as e:  # noqa
            raise Violation(f"C06/shape-transform-raised[{op['shape']['t']}]",
                            f"{via} of a {op['shape']['t']} raised {type(e).__name__}: {e}")
        self.probe("shape-query-via-" + via)
        self._check_shape(None, self._polys(), shape=shape)
        return "ok"


def _fmt(raw):
    if raw["t"] == "circ":
        return f"(r={raw['r']:.4g}, c=({raw['c'][0]:.4g},{raw['c'][1]:.4g}))"
    if raw["t"] == "rect":
        return f"(l={raw['l']:.4g}, w={raw['w']:.4g}, c=({raw['c'][0]:.4g},{raw['c'][1]:.4g}), o={raw['o']:.4g})"
    if raw["t"] == "poly":
        return f"({len(raw['v'])} vertices)"
    return "(group)"


# ------------------------------------------------------------------ clients
def _builder(rng, run, cfg):
    all_keys = sorted(run.pool)
    keys = [k for k in all_keys if k.startswith("l")]  # "x" keys reuse ids and are only offered as clashes
    n_copy = 0
    while True:
        if run.shadow is not None and rng.chance(0.2):
            yield {"op": "swap"}
            continue
        r = rng.pick(cfg["routes"])
        free = [k for k in keys if run.pool[k]["id"] not in run.present]
        if r == "create_from_list":
            yield {"op": r, "keys": rng.sample(keys, rng.randint(1, len(keys)))}
        elif r in ("add_one", "remove", "add_batch") and run.present and not run.universe.get("lattice") \
                and rng.chance(0.12):
            yield {"op": "move", "d": [rng.uniform(-30, 30), rng.uniform(-30, 30)], "a": rng.uniform(-3.0, 3.0)}
        elif r == "add_clash" and run.present and rng.chance(0.4):
            xs = [k for k in all_keys if k.startswith("x") and run.pool[k]["id"] in run.present]
            yield {"op": "replace_geometry", "key": rng.pick(xs)} if xs else None
        elif r == "add_batch" and free and rng.chance(0.3):
            yield {"op": "add_deferred", "key": rng.pick(free)}
        elif r == "add_one" and run.present and rng.chance(0.3):
            n_copy += 1
            op = {"op": "add_copy", "id": rng.pick(sorted(run.present)), "new_id": 5000 + n_copy}
            yield op if run.enabled(op) else None
        elif r in ("add_one", "scenario_add") and free:
            cand = [k for k in free if run.enabled({"op": r, "key": k})]
            yield {"op": r, "key": rng.pick(cand)} if cand else None
        elif r == "add_from_network" and free:
            yield {"op": r, "keys": rng.sample(free, rng.randint(1, len(free)))}
        elif r == "add_batch" and len(free) >= 2:
            yield {"op": r, "keys": rng.sample(free, rng.randint(2, len(free)))}
        elif r == "scenario_add_list" and free:
            used = [k for k in keys if run.pool[k]["id"] in run.present and run.pool[k]["id"] in run.sc_known]
            if used:
                op = {"op": r, "keys": rng.sample(free, rng.randint(1, min(3, len(free)))) + [rng.pick(used)]}
                yield op if run.enabled(op) else None
            else:
                yield None
        elif r == "add_clash" and run.present:
            used = [k for k in keys if run.pool[k]["id"] in run.present]
            clash = [k for k in all_keys if k.startswith("x") and run.pool[k]["id"] in run.present]
            cand = clash or used
            if not cand:  # e.g. on the relabelled network: nothing in the pool shares an id with it
                yield None
                continue
            chosen = [rng.pick(cand)]
            if rng.chance(0.5) and free:
                extra = rng.pick(free)
                if run.pool[extra]["id"] != run.pool[chosen[0]]["id"]:
                    chosen.append(extra)
                    rng.shuffle(chosen)
            op = {"op": "add_clash", "keys": chosen, "via": rng.choice(["network", "single"])}
            yield op if run.enabled(op) else None
        elif r == "remove" and run.present:
            known = sorted(i for i in run.present if i in run.sc_known)
            if known and rng.chance(0.35):
                yield {"op": "scenario_remove_list", "ids": rng.sample(known, rng.randint(1, min(3, len(known)))),
                       "pos": rng.randrange(4)}
            else:
                yield {"op": r, "id": rng.pick(sorted(run.present))}
        elif r == "cut_out" and run.present:
            yield {"op": r, "lanelet": rng.pick(sorted(run.present)),
                   "shape": gen.gen_shape(rng, ("rect", "poly", "circ"), scale=rng.choice([1.0, 4.0, 10.0])),
                   "ori": rng.uniform(-3, 3)}
        else:
            yield None


def _querier(rng, run, cfg):
    while True:
        ids = sorted(run.present)
        if not ids:
            yield {"op": "panel"} if rng.chance(0.2) else None
            continue
        r = rng.random()
        if run.universe.get("lattice") and rng.chance(0.5):
            if rng.chance(0.5):
                yield {"op": "q_pos", "pts": [{"lanelet": rng.pick(ids), "seg": rng.randrange(5),
                                               "snap": [float(rng.randint(-7, 7)), float(rng.choice([-2, -1, 0, 1, 2]))]}
                                              for _ in range(rng.randint(2, 5))]}
            else:
                yield {"op": "q_shape", "lanelet": rng.pick(ids), "seg": rng.randrange(5),
                       "snap": [float(rng.randint(-7, 7)), float(rng.choice([-3, -2, -1, 0, 1, 2, 3]))], "t": 0.0,
                       "shape": {"t": "rect", "l": float(rng.choice([2, 4, 8, 12])), "w": float(rng.choice([2, 4, 6]))},
                       "ori": 0.0, "via": None}
            continue
        if r < 0.45:
            pts = []
            for _ in range(rng.randint(1, 5)):
                q = rng.random()
                if q < 0.6:
                    pts.append({"lanelet": rng.pick(ids), "seg": rng.randrange(4), "t": rng.uniform(0.02, 0.98),
                                "off": rng.uniform(-1.6, 1.6)})
                elif q < 0.85:
                    pts.append({"lanelet": rng.pick(ids), "seg": rng.randrange(5), "t": 0.0,
                                "vertex": rng.choice(["l", "r"])})
                else:
                    pts.append({"far": [rng.uniform(-2000, 2000), rng.uniform(-2000, 2000)]})
            yield {"op": "q_pos", "pts": pts}
        elif r < 0.9:
            yield {"op": "q_shape", "lanelet": rng.pick(ids), "seg": rng.randrange(4), "t": rng.uniform(0.0, 1.0),
                   "off": rng.uniform(-2.5, 2.5),
                   "shape": gen.gen_shape(rng, cfg["shape_kinds"], scale=rng.choice([0.3, 1.0, 1.0, 3.0, 8.0])),
                   "ori": rng.choice([rng.uniform(-3.1, 3.1), rng.uniform(-3.1, 3.1), 0.0]),
                   "via": rng.choice([None, None, "translate_rotate", "rotate_translate_local"]),
                   "d": [rng.uniform(-40, 40), rng.uniform(-40, 40)], "ori0": rng.uniform(-3.1, 3.1)}
        else:
            yield {"op": "panel"}


def _bystander(rng, run, cfg):
    n_draw = 0
    while True:
        how = rng.pick(["draw", "compare", "copy-and-drop", "derive", "derive-and-move", "edit-returned-lists"])
        if how == "draw":
            n_draw += 1
            if n_draw > 1:
                how = "compare"
        yield {"op": "bystander", "how": how} if run.present else None


def _restarter(rng, run, cfg):
    while True:
        if run.shadow is not None and rng.chance(0.45):
            yield {"op": "swap"}
        else:
            yield {"op": "restart", "how": rng.pick(cfg["restart_kinds"]), "keep": rng.chance(0.5)}


ROUTES = ["create_from_list", "add_one", "scenario_add", "add_from_network", "remove", "cut_out", "add_clash", "add_batch", "scenario_add_list"]
RESTARTS = ["deepcopy", "deepcopy_net", "pickle", "pickle_net", "xml", "xml_net", "pb"]


class C06(Property):
    id = "C06"
    title = "Spatial lookups agree with the geometry they index"
    tiers = {"quick": {"runs": 1200, "wall": 240, "chunk": 10}, "thorough": {"runs": 40000, "wall": 1700, "chunk": 25}}
    expected_probes = ["route:create_from_lanelet_list", "route:add_lanelet", "route:Scenario.add_objects(lanelet)",
                       "route:add_lanelets_from_network", "route:remove_lanelet", "route:create_from_lanelet_network",
                       "restart-deepcopy", "restart-pickle", "restart-xml", "restart-pb", "restart-xml_net",
                       "restart-deepcopy_net", "restart-pickle_net", "point-inside", "point-in-two-lanelets",
                       "shape-query-rect", "shape-query-circ", "shape-query-poly", "shape-meets-several-lanelets",
                       "obstacle-mapping-checked", "shape-query-via-translate_rotate",
                       "shape-query-via-rotate_translate_local", "coincident-lanelets", "route:add-with-id-clash", "route:add_lanelet[rtree=False..True]",
                       "candidate-list-with-repeated-obstacle-id", "fork-keeps-original",
                       "continued-on-the-other-copy", "lattice-point-exactly-on-a-lanelet-border",
                       "lattice-shape-exactly-tangent-to-a-lanelet", "bystander-draw", "bystander-derive",
                       "second-network-with-other-lanelet-ids", "route:Scenario.add_objects([.., refused])", "bounding-box-decoy-group", "list-removal-interrupted", "route:add_lanelet(deep copy with a new id)", "route:translate_rotate",
                       "route:remove_lanelet(rtree=False)+add_lanelet(other geometry, same id)",
                       "route:add_lanelet[rtree=False, index deferred]", "index-deferred:only-index-free-answers-checked",
                       "bystander-edit-returned-lists"]
    assumptions = [
        "geometric truth comes from crkit.geom (raw vertices / parameters, shapely predicates on geometry built there) "
        "with a don't-care band: clearance or penetration below 1e-7, and for circles distances in [0.99 r, r] "
        "(a 64-gon disc may answer either way); exact polygon vertices count as contained",
        "only the index-mirrors-network clause is a simulation target; the shape-semantics clause is a pure function "
        "and is merely sampled on the query shapes the runs use",
        "which lanelets a cut-out selects is C10's business; here the cut-out is only a construction route",
        "lanelets are simple polygons (generated as warped grids plus one crossing lanelet)",
    ]

    def gen_config(self, rng):
        return {"steps": rng.randint(5, 24), "routes": sorted(rng.subset(ROUTES, 0.6, at_least=2)),
                "restart_kinds": sorted(rng.subset(RESTARTS, 0.5, at_least=1)), "restarts": rng.chance(0.6),
                "panel_after_mutation": rng.chance(0.7), "n_queriers": rng.randint(1, 2), "bystander": rng.chance(0.4),
                "relabelled_twin": rng.chance(0.3),
                "shape_kinds": sorted(rng.subset(["rect", "circ", "poly", "group"], 0.6, at_least=1))}

    def gen_universe(self, rng, cfg):
        ids = gen.IdAlloc(rng, 1, 400, zero=0.15)
        lattice = rng.chance(0.25)
        fine = (not lattice) and rng.chance(0.15)
        if fine:
            # a map in projected coordinates (tens of kilometres from the origin) whose curved lanelets are sampled every
            # few centimetres: neighbouring vertices differ by less than any relative tolerance would keep apart
            net = gen.gen_network(rng, rows=rng.randint(1, 2), cols=rng.randint(1, 2), ids=ids, signs=False,
                                  lights=False, intersections=False, stop_lines=False, overlap=False, types=False,
                                  curved=True, n_pts=rng.choice([80, 160]), far=1.0, far_range=(20000.0, 60000.0))
        else:
            net = gen.gen_network(rng, rows=rng.randint(1, 3), cols=rng.randint(1, 3), ids=ids, signs=False,
                                  lights=False, intersections=False, stop_lines=False, overlap=rng.chance(0.6),
                                  types=False, lattice=lattice)
        lanelets = {}
        for j, la in enumerate(net["lanelets"]):
            lanelets[f"l{j}"] = la
        # lanelets that reuse an id of the pool with OTHER geometry (only ever offered to a network that already
        # holds that id: the network must refuse them and keep answering for its own lanelet)
        far = gen.gen_network(rng, rows=1, cols=rng.randint(1, 2), ids=gen.IdAlloc(rng, 900, 990), signs=False,
                              lights=False, intersections=False, stop_lines=False, overlap=False, types=False,
                              extra_links=False)
        for j, la in enumerate(far["lanelets"]):
            twin_of = rng.pick(net["lanelets"])
            lanelets[f"x{j}"] = {"id": twin_of["id"], "left": la["left"], "center": la["center"], "right": la["right"],
                                 "pred": [], "succ": []}
        if rng.chance(0.25):
            # two lanelets with different ids and coincident geometry (legal: overlapping lanelets)
            src = rng.pick(net["lanelets"])
            twin = {"id": ids.take(), "left": src["left"], "center": src["center"], "right": src["right"],
                    "pred": [], "succ": []}
            net["lanelets"].append(twin)
            lanelets[f"l{len(lanelets)}"] = twin
        obstacles = []
        for _ in range(rng.randint(0, 4)):
            role = rng.weighted(["static", "dynamic", "dynamic_nopred"], [3, 2, 1])
            obstacles.append(gen.gen_obstacle(rng, ids.take(), net, role=role, t0=0,
                                              shape_kinds=("rect", "circ", "poly", "group"), on_road=0.7, offset_p=0.2))
        if rng.chance(0.35) and not lattice:
            # a hollow obstacle (U outline) around a piece of lanelet: its reference point / centroid lies on the lanelet,
            # the outline itself runs along both sides of it and need not touch it - centre and shape disagree
            la = rng.pick(net["lanelets"])
            k = rng.randrange(len(la["center"]) - 1)
            cx, cy = [(la["center"][k][j] + la["center"][k + 1][j]) / 2 for j in (0, 1)]
            wdt = math.hypot(la["left"][k][0] - la["right"][k][0], la["left"][k][1] - la["right"][k][1])
            th = math.atan2(la["center"][k + 1][1] - la["center"][k][1], la["center"][k + 1][0] - la["center"][k][0])
            w = rng.uniform(0.2, 0.5)
            a = wdt / 2 + w + rng.uniform(0.1, 1.2)
            b = rng.uniform(1.0, 3.0)
            v = [[-a, -b], [a, -b], [a, b], [a - w, b], [a - w, -b + w], [-a + w, -b + w], [-a + w, b], [-a, b]]
            mx, my = sum(p[0] for p in v) / len(v), sum(p[1] for p in v) / len(v)
            v = [[x - mx, y - my] for x, y in v]
            obstacles.append({"id": ids.take(), "role": "static", "type": "PARKED_VEHICLE", "signal_series": [],
                              "shape": {"t": "poly", "v": v},
                              "init": {"t": 0, "pos": [cx, cy], "ori": th - math.pi / 2 + rng.uniform(-0.2, 0.2),
                                       "vel": 0.0, "acc": 0.0, "yaw": 0.0, "slip": 0.0}})
        for ob in obstacles:
            if ob["role"] == "static" and rng.chance(0.4):
                ob["init"]["t"] = rng.randint(1, 5)  # a parked vehicle recorded from a later time step on
        if obstacles and rng.chance(0.3):
            other = gen.gen_obstacle(rng, obstacles[0]["id"], net, role="static", t0=0,
                                     shape_kinds=("rect", "poly"), on_road=0.9)
            obstacles.append(other)  # another obstacle carrying the same id (candidate lists are plain lists)
        return {"lanelets": lanelets, "obstacles": obstacles, "lattice": lattice}

    def new_run(self, universe, cfg):
        return Run(universe, cfg)

    def make_clients(self, rng, cfg, run):
        out = [Client("builder", 2.5, _builder(rng.sub("b"), run, cfg))]
        for j in range(cfg["n_queriers"]):
            out.append(Client(f"querier{j}", 2.0, _querier(rng.sub("q", j), run, cfg)))
        if cfg["restarts"]:
            out.append(Client("restarter", 0.8, _restarter(rng.sub("r"), run, cfg)))
        if cfg.get("bystander"):
            out.append(Client("bystander", 0.5, _bystander(rng.sub("by"), run, cfg)))
        return out

    def prune_universe(self, universe, trace):
        used = set()
        for e in trace:
            op = e["op"]
            used.update(op.get("keys", []))
            if "key" in op:
                used.add(op["key"])
        # lanelets referenced by id in queries must stay: map ids back to keys
        ids = set()
        for e in trace:
            op = e["op"]
            for p in op.get("pts", []):
                if "lanelet" in p:
                    ids.add(p["lanelet"])
            if "lanelet" in op:
                ids.add(op["lanelet"])
            if "id" in op:
                ids.add(op["id"])
        keep = {k: v for k, v in universe["lanelets"].items() if k in used}
        if keep != universe["lanelets"]:
            yield dict(universe, lanelets=keep)
        for i in range(len(universe["obstacles"])):
            yield dict(universe, obstacles=universe["obstacles"][:i] + universe["obstacles"][i + 1:])

    def simplify_op(self, op):
        if op["op"] in ("create_from_list", "add_from_network") and len(op["keys"]) > 1:
            for i in range(len(op["keys"])):
                yield dict(op, keys=op["keys"][:i] + op["keys"][i + 1:])
        if op["op"] == "q_pos" and len(op["pts"]) > 1:
            for i in range(len(op["pts"])):
                yield dict(op, pts=op["pts"][:i] + op["pts"][i + 1:])
        if op["op"] == "restart" and op["how"] != "deepcopy":
            yield dict(op, how="deepcopy")
        if op["op"] == "restart" and op.get("keep"):
            yield dict(op, keep=False)
        if op["op"] == "q_shape" and op.get("via"):
            yield dict(op, via=None)
        if op["op"] == "q_shape" and op["shape"]["t"] == "group" and len(op["shape"]["shapes"]) > 1:
            for s in op["shape"]["shapes"]:
                yield dict(op, shape=s)

    def describe_sim_time(self, sim_time, steps):
        return {"unit": "logical steps (one public API call each); the property has no clock", "steps": steps}

    def components(self):
        return {"real": ["commonroad LaneletNetwork (STRtree index) / Lanelet / shapes", "shapely (inside the library)",
                         "XML and protobuf writer + reader (restart route)", "pickle / copy.deepcopy",
                         "tmpfs scratch directory"],
                "stub": ["none; the geometric oracle crkit.geom is independent code, not a stub of the library"]}


PROPERTY = C06()
