"""C15 — a file writer's output depends only on its own inputs.

System under simulation: several writer clients (XML / protobuf, precisions 1..12) share the
process-global precision setting, a scratch directory and a simulated clock; fault clients jump the
clock, plant files at target paths, remove target directories and tear protobuf writes.
Oracles: (1) isolation against a fork-isolated pristine twin, (2) history check over identically
constructed writers, (3) readable + same inventory, (4) SKIP leaves an existing file byte-identical.
"""
import copy
import datetime
import hashlib
import os
import shutil
import tempfile

from lxml import etree

from commonroad.common.file_reader import CommonRoadFileReader
from commonroad.common.file_writer import CommonRoadFileWriter
from commonroad.common.util import FileFormat
from commonroad.common.writer.file_writer_interface import OverwriteExistingFile
from commonroad.scenario.scenario import Tag
from commonroad.scenario_definition.protobuf_format.generated_scripts import commonroad_pb2

from crkit import build, gen
from crkit.abstract import inventory
from simkit.engine import Client, HarnessError, Property, RunBase, Violation
from simkit.seams import Seams, SimClock, get_zygote, in_fork

SCRATCH_ROOT = "/dev/shm" if os.path.isdir("/dev/shm") else tempfile.gettempdir()
FMT = {"xml": FileFormat.XML, "pb": FileFormat.PROTOBUF}
MODE = {"ALWAYS": OverwriteExistingFile.ALWAYS, "SKIP": OverwriteExistingFile.SKIP,
        "ASK": OverwriteExistingFile.ASK_USER_INPUT}


def normalise(fmt, data: bytes):
    """Content modulo the date stamp.  Returns bytes, or raises ValueError if it cannot even be parsed."""
    if fmt == "xml":
        try:
            root = etree.fromstring(data)
        except etree.XMLSyntaxError as e:
            raise ValueError(f"not XML: {e}")
        if "date" in root.attrib:
            root.attrib["date"] = "X"
        for tags in root.iter("scenarioTags"):
            # the tags are a SET: the order in which the writer emits them is the set's iteration order, which a deep
            # copy of the writer may legitimately change (see DESIGN 10.3)
            tags[:] = sorted(tags, key=lambda el: el.tag)
            tags.text = None
            for el in tags:
                el.tail = None  # the pretty-printer's indentation travels with the elements
        return etree.tostring(root)
    msg = commonroad_pb2.CommonRoad()
    try:
        msg.ParseFromString(data)
    except Exception as e:  # noqa
        raise ValueError(f"not protobuf: {e}")
    msg.information.ClearField("date")
    return msg.SerializePartialToString(deterministic=True)


def make_writer(scn, pps, args):
    prec = args["prec"]
    if args.get("prec_form") == "np":
        import numpy as np

        prec = np.int64(prec)  # precisions often come out of numpy / config arrays
    kw = {"decimal_precision": prec, "file_format": FMT[args["fmt"]]}
    if args.get("prec_form") == "default":
        del kw["decimal_precision"]  # the documented default (4 decimals)
    meta = args.get("meta") or {}
    if "author" in meta:
        kw["author"] = meta["author"]
    if "tags" in meta:
        kw["tags"] = {Tag[t] for t in meta["tags"]}
    if "source" in meta:
        kw["source"] = meta["source"]
    if "location" in meta:
        from commonroad.scenario.scenario import Location

        kw["location"] = Location(geo_name_id=meta["location"][0], gps_latitude=meta["location"][1],
                                  gps_longitude=meta["location"][2])
    return CommonRoadFileWriter(scn, pps, **kw)


def do_write(w, path, mode, method, validate):
    if method == "full":
        w.write_to_file(path, MODE[mode], validate)
    else:
        w.write_scenario_to_file(path, MODE[mode])


def pristine_write(payload):
    """Runs in a grandchild of the zygote (a process in which no run ever executed): build the scenario from its
    spec, re-apply the input mutations, construct the writer with the given arguments and write at once."""
    import logging
    import warnings

    warnings.simplefilter("ignore")
    logging.disable(logging.CRITICAL)
    sys_stdout = os.dup(1)
    devnull = os.open(os.devnull, os.O_WRONLY)
    os.dup2(devnull, 1)
    d = tempfile.mkdtemp(prefix="c15-twin-", dir=SCRATCH_ROOT)
    try:
        clock = SimClock(datetime.datetime.fromisoformat(payload["clock"]))
        seams = Seams(clock)
        scn = build.build_scenario(payload["scenario"])
        pps = build.build_pps(payload["pps"])
        for m in payload["mutations"]:
            apply_input_mutation(scn, pps, m)
        fault = payload.get("fault") or {}
        path = os.path.join(d, "missing" if "nodir" in fault else "", "twin" + FMT[payload["args"]["fmt"]].value)
        if "devfull" in fault:
            path = "/dev/full"
        if payload.get("target_is_dir"):
            os.makedirs(path)
        if "ioerr" in fault:
            seams.open_shim.arm(fault["ioerr"])
        w = make_writer(scn, pps, payload["args"])
        do_write(w, path, "ALWAYS", payload["method"], payload["validate"])
        if "devfull" in fault:
            return b""
        with open(path, "rb") as f:
            return f.read()
    finally:
        os.dup2(sys_stdout, 1)
        shutil.rmtree(d, ignore_errors=True)


def apply_input_mutation(scn, pps, op):
    import numpy as np

    if op["how"] == "translate":
        # the network only: Scenario.translate_rotate raises for environment obstacles (C05's business)
        scn.lanelet_network.translate_rotate(np.array(op["d"], dtype=float), 0.0)
        pps.translate_rotate(np.array(op["d"], dtype=float), 0.0)
    elif op["how"] == "remove_obstacle":
        obs = scn.obstacles
        if obs:
            scn.remove_obstacle(obs[0])


def _tag(op, w):
    return f"{op['method']}[{w['fmt']}]"


class Run(RunBase):
    def __init__(self, universe, cfg):
        super().__init__(universe, cfg)
        self.dir = tempfile.mkdtemp(prefix="c15-", dir=SCRATCH_ROOT)
        self.clock = SimClock(datetime.datetime.fromisoformat(universe["clock_start"]))
        self.seams = Seams(self.clock)
        self.scn = {}
        for k, s in universe["scenarios"].items():
            self.scn[k] = (build.build_scenario(s["scenario"]), build.build_pps(s["pps"]))
        self.writers = {}  # name -> {"w": writer, "args":..., "writes": n, "failed": bool, "last_day":..., "methods": set}
        self.history = {}  # (scn, fmt, prec, meta, method) -> [(digest, step, writer)]
        self.last_construct = None
        self.step = 0
        self.version = {k: 0 for k in self.scn}  # bumped when a scenario (a writer INPUT) is changed
        self.mutations = {k: [] for k in self.scn}  # re-applied by the pristine twin
        self.readers = {}  # (path, format) -> reader object, re-used for later read-backs of the same path
        self.zygote = get_zygote()

    def close(self):
        self.seams.remove()
        shutil.rmtree(self.dir, ignore_errors=True)
        self.sim_time = self.clock.covered

    def enabled(self, op):
        k = op["op"]
        if k == "construct":
            return op["scn"] in self.scn
        if k in ("write", "clone"):
            return op["w"] in self.writers
        if k == "mutate_scn":
            return op["scn"] in self.scn
        return k in ("clock", "plant")

    def _path(self, rel):
        return os.path.join(self.dir, rel)

    def apply(self, op):
        self.step += 1
        return getattr(self, "_op_" + op["op"])(op)

    # ---------------------------------------------------------------- ops
    def _op_construct(self, op):
        scn, pps = self.scn[op["scn"]]
        args = {"fmt": op["fmt"], "prec": op["prec"], "meta": op.get("meta")}
        if op.get("prec_form") == "np":
            args["prec_form"] = "np"
        if op.get("prec_form") == "default":
            args["prec_form"], args["prec"] = "default", 4
            self.probe("writer-constructed-with-the-default-precision")
        w = make_writer(scn, pps, args)
        for name, other in self.writers.items():
            if name != op["w"] and other["writes_pending"]:
                if other["args"]["prec"] != op["prec"]:
                    other["foreign_prec"] = True
                if other["args"]["fmt"] == "xml" and op["fmt"] == "pb":
                    other["foreign_pb"] = True
        self.writers[op["w"]] = {"w": w, "args": args, "scn": op["scn"], "writes": 0, "failed": False,
                                 "last_day": None, "methods": set(), "writes_pending": True,
                                 "foreign_prec": False, "foreign_pb": False, "input_changed": False}
        return "ok"

    def _op_clone(self, op):
        """The writer is copied (copy.copy) and the COPY is used from now on: it was constructed with the same
        arguments, so it writes what the original would."""
        rec = self.writers[op["w"]]
        scn, pps = self.scn[rec["scn"]]
        try:
            # (copy.copy only: a DEEP copy re-creates the writer's own sets - e.g. the scenario tags - by inserting
            # their elements in iteration order, which may legitimately iterate in another order afterwards; the
            # XML writer emits sets in iteration order, so the tag order of a deep-copied writer can differ from a
            # fresh one's under some hash seeds without anything being wrong.  Found by the determinism self-test.)
            how = "copy"
            if op["how"] == "deepcopy" and rec["args"]["fmt"] == "xml":
                # XML only: the comparison is insensitive to the order of the scenario tags there (normalise)
                clone = copy.deepcopy(rec["w"], {id(scn): scn, id(pps): pps})
                how = "deepcopy"
            else:
                clone = copy.copy(rec["w"])
        except Exception as e:  # noqa   whether writers can be copied at all is not C15's business
            self.probe("clone-raised:" + type(e).__name__)
            return {"raised": type(e).__name__}
        rec["w"] = clone
        self.probe("writer-cloned:" + how)
        return "ok"

    def _op_clock(self, op):
        self.faults["F-clock"] += 1
        before = self.clock.now.date()
        self.clock.advance(op["dt"])
        if self.clock.now.date() != before:
            self.probe("clock-crossed-midnight")
        if op["dt"] < 0:
            self.probe("clock-went-backwards")
        return "ok"

    def _op_mutate_scn(self, op):
        """The scenario is an input of the writer: after it changed, the writer must write the CURRENT content
        (no copy taken at construction time, no cached document)."""
        scn, pps = self.scn[op["scn"]]
        apply_input_mutation(scn, pps, op)
        self.mutations[op["scn"]].append({k: v for k, v in op.items() if k in ("how", "d")})
        self.version[op["scn"]] += 1
        for rec in self.writers.values():
            if rec["scn"] == op["scn"]:
                rec["input_changed"] = True
        return "ok"

    def _op_plant(self, op):
        if op["content"] == "dir":
            self.faults["F-isdir"] += 1
            p = self._path(op["path"])
            if os.path.isfile(p):
                os.remove(p)
            os.makedirs(p, exist_ok=True)
            return "ok"
        self.faults["F-exists"] += 1
        p = self._path(op["path"])
        if os.path.isdir(p):
            shutil.rmtree(p, ignore_errors=True)
        if op["content"] == "junk":
            data = hashlib.sha256(op["path"].encode() + str(self.step).encode()).digest() * 7
        else:
            data = b"<?xml version='1.0'?><commonRoad/>\n"
        with open(p, "wb") as f:
            f.write(data)
        return "ok"

    def _op_write(self, op):
        rec = self.writers[op["w"]]
        w, args = rec["w"], rec["args"]
        scn, pps = self.scn[rec["scn"]]
        fault = op.get("fault") or {}
        rel = op["path"]
        if "nodir" in fault:
            rel = os.path.join("missing", rel)
            self.faults["F-nodir"] += 1
        path = self._path(rel)
        if "devfull" in fault:
            path = "/dev/full"  # every write to it fails with ENOSPC (also inside lxml's C writer)
            self.faults["F-diskfull"] += 1
        twin_path = self._path(rel + ".twin")
        mode, method, validate = op["mode"], op["method"], bool(op.get("validate", False))
        ask_answer = None
        if mode == "ASK":
            # the user is asked only if the file exists; "n" must behave like SKIP, anything else like ALWAYS
            ask_answer = op.get("answer", "y")
            self.seams.answers = [ask_answer]
            self.seams.asked = 0
        tag = _tag(op, args)
        existed = os.path.isfile(path)
        before = open(path, "rb").read() if existed else None
        if "ioerr" in fault and args["fmt"] != "pb":
            raise HarnessError("ioerr fault on a non-protobuf writer")

        # --- the pristine twin: a writer with the same arguments, constructed and used with nothing in between, in
        #     a process that never executed a run (simkit.seams.Zygote): nothing the runs of this process left
        #     behind (settings, caches, class attributes) can reach it
        eff_skip = existed and (mode == "SKIP" or (mode == "ASK" and ask_answer == "n"))
        if eff_skip:
            twin_res = None
        else:
            target_is_dir = os.path.isdir(path)
            if target_is_dir:
                self.probe("target-is-a-directory")
            u = self.universe["scenarios"][rec["scn"]]
            twin_res = self.zygote.call("props.c15_writers:pristine_write", {
                "scenario": u["scenario"], "pps": u["pps"], "mutations": self.mutations[rec["scn"]], "args": args,
                "method": method, "validate": validate, "fault": fault, "clock": self.clock.now.isoformat(),
                "target_is_dir": target_is_dir})
            if twin_res[0] == "exc" and twin_res[1] == "ZygoteFailure":
                raise HarnessError(f"pristine twin failed: {twin_res[2]}")

        # --- the write under test
        if "ioerr" in fault:
            self.seams.open_shim.arm(fault["ioerr"])
            self.faults["F-ioerr"] += 1
        try:
            import pathlib

            do_write(w, pathlib.Path(path) if op.get("path_form") == "Path" else path, mode, method, validate)
            exc = None
        except Exception as e:  # noqa
            exc = e
        finally:
            self.seams.open_shim.armed = None
        rec["writes"] += 1
        rec["writes_pending"] = False
        if rec["writes"] >= 2:
            self.probe("same-writer-writes-again")
        cause = "rewrite" if rec["writes"] >= 2 else ("foreign-construct" if rec["foreign_prec"] or rec["foreign_pb"]
                                                      else "first-write")
        if rec["foreign_prec"]:
            self.probe("foreign-construct-other-precision-between")
        if rec["foreign_pb"]:
            self.probe("foreign-protobuf-construct-before-xml-write")
        rec["foreign_prec"] = rec["foreign_pb"] = False
        if rec.get("input_changed"):
            self.probe("write-after-scenario-changed")
            rec["input_changed"] = False
        if rec["methods"] and method not in rec["methods"]:
            self.probe("both-write-methods-on-one-writer")
        rec["methods"].add(method)
        day = self.clock.now.date()
        if rec["last_day"] is not None and rec["last_day"] != day:
            self.probe("midnight-between-two-writes-of-one-writer")
        rec["last_day"] = day

        if mode == "ASK":
            self.seams.answers = []
            if existed:
                self.probe("asked-user-answer-" + ask_answer)
                if exc is None and self.seams.asked != 1:
                    raise Violation(f"C15/ask-user-not-asked/{tag}",
                                    f"overwrite mode ASK_USER_INPUT onto an existing file asked the user "
                                    f"{self.seams.asked} times")
            elif self.seams.asked:
                raise Violation(f"C15/asked-without-existing-file/{tag}",
                                "overwrite mode ASK_USER_INPUT asked the user although the target did not exist")
        # --- oracle 4: SKIP (or the answer 'n') leaves an existing file untouched
        if eff_skip:
            self.probe("skip-onto-existing")
            after = open(path, "rb").read() if os.path.isfile(path) else None
            if exc is not None:
                raise Violation(f"C15/skip-raised/{tag}", f"write with SKIP onto an existing file raised "
                                                          f"{type(exc).__name__}: {exc}")
            if after != before:
                raise Violation(f"C15/skip-modified-file/{tag}",
                                f"overwrite mode SKIP changed the existing file {op['path']} "
                                f"({len(before)} -> {len(after) if after is not None else 'deleted'} bytes)")
            return "skipped"

        # --- oracle 1: same outcome as the pristine twin
        if twin_res[0] == "exc":
            if exc is None:
                raise Violation(f"C15/twin-fails-writer-succeeds/{tag}",
                                f"a fresh identical writer raises {twin_res[1]} but this writer succeeded")
            if type(exc).__name__ != twin_res[1]:
                raise Violation(f"C15/exception-differs/{tag}",
                                f"this writer raised {type(exc).__name__}: {exc}; a fresh identical writer raises "
                                f"{twin_res[1]}: {twin_res[2]}")
            rec["failed"] = True
            self.probe("write-failed-as-twin")
            return {"raised": type(exc).__name__}
        if exc is not None:
            raise Violation(f"C15/writer-fails-twin-succeeds/{tag}",
                            f"this writer raised {type(exc).__name__}: {exc} although a fresh identical writer "
                            f"writes the file (writes so far by this writer: {rec['writes']})")
        if "devfull" in fault:
            # small documents: lxml buffers the output and does not report the failing close - the write is silently
            # lost for the writer and for its twin alike; nothing to compare
            self.probe("lost-write-on-full-device-not-reported")
            return {"result": "ok-nothing-written"}
        if rec["failed"]:
            self.probe("success-after-failed-write")
        if existed:
            self.probe("always-onto-existing")
        data = open(path, "rb").read()
        try:
            n_twin = normalise(args["fmt"], twin_res[1])
        except ValueError as e:
            raise HarnessError(f"twin output cannot be normalised: {e}")
        try:
            n_mine = normalise(args["fmt"], data)
        except ValueError as e:
            raise Violation(f"C15/content-unparseable/{tag}", f"file written by writer {op['w']} cannot be parsed: {e}")
        if n_mine != n_twin:
            what = "after an earlier write by the same writer" if rec["writes"] >= 2 else \
                "with other writers constructed/used in between"
            k = next((i for i, (x, y) in enumerate(zip(n_mine, n_twin)) if x != y), min(len(n_mine), len(n_twin)))
            raise Violation(f"C15/content-differs/{tag}<-{cause}",
                            f"content (date aside) differs from what a fresh identical writer produces, {what}: "
                            f"{len(data)} bytes vs {len(twin_res[1])} bytes; writer args {args}",
                            {"writes_by_this_writer": rec["writes"], "args": args,
                             "first_difference_at": k, "this_writer": repr(n_mine[max(0, k - 60):k + 60]),
                             "fresh_writer": repr(n_twin[max(0, k - 60):k + 60])})

        # --- oracle 2: history of identically constructed writers
        key = (f"{rec['scn']}@v{self.version[rec['scn']]}", args["fmt"], args["prec"],
               str(sorted((args.get("meta") or {}).items())), method)
        dig = hashlib.sha256(n_mine).hexdigest()
        self.history.setdefault(key, []).append((dig, self.step, op["w"]))

        # --- oracle 3: readable, same inventory (sampled; relative to the original objects)
        out = {"result": "ok"}
        if op.get("readback", False):
            try:
                # reader objects are kept per path and re-used: a long-lived reader must return what is in the file now
                rk = (path, args["fmt"])
                if rk in self.readers and op.get("reuse_reader", True):
                    reader = self.readers[rk]
                    self.probe("reader-object-reused-after-rewrite")
                else:
                    reader = self.readers[rk] = CommonRoadFileReader(path, FMT[args["fmt"]])
                sc2, pps2 = reader.open()
                inv2 = inventory(sc2, pps2 if method == "full" else None)
                inv1 = inventory(scn, pps if method == "full" else None)
                same = inv1 == inv2
                err = None
            except Exception as e:  # noqa
                same, err = False, e
            if err is not None or not same:
                # is a fresh writer's file any better?  If not, this is C01/C02 territory, not C15.
                def twin_read():
                    tw = make_writer(scn, pps, args)
                    do_write(tw, twin_path, "ALWAYS", method, validate)
                    s3, p3 = CommonRoadFileReader(twin_path, FMT[args["fmt"]]).open()
                    return inventory(s3, p3 if method == "full" else None) == inventory(
                        scn, pps if method == "full" else None)

                tr = in_fork(twin_read)
                if os.path.exists(twin_path):
                    os.remove(twin_path)
                if tr == ("ok", True):
                    raise Violation(f"C15/readback-differs/{tag}",
                                    f"the file does not read back to the same inventory ({err or 'inventory differs'}) "
                                    f"although a fresh identical writer's file does")
                self.probe("readback-skipped-twin-also-unreadable")
            else:
                self.probe("readback-ok")
                out["inventory_ok"] = True
        self.note_state([sorted((n, r["writes"], r["failed"]) for n, r in self.writers.items())])
        return out

    def finish(self):
        for key, items in self.history.items():
            if len({d for d, _, _ in items}) > 1:
                raise Violation(f"C15/history-differs/{key[4]}[{key[1]}]",
                                f"identically constructed writers {sorted({w for _, _, w in items})} for scenario "
                                f"{key[0]} (precision {key[2]}) produced different contents at steps "
                                f"{[s for _, s, _ in items]}")
            if len(items) > 1 and len({w for _, _, w in items}) > 1:
                self.probe("identical-writers-compared")


# ------------------------------------------------------------------ clients
def _writer_user(rng, run, name, cfg):
    scns = sorted(run.universe["scenarios"])
    n = 0
    while True:
        w = f"{name}w{n}"
        n += 1
        fmt = rng.weighted(["xml", "pb"], cfg["fmt_weights"])
        meta = None
        if rng.chance(0.25):
            meta = {"author": rng.pick(["A. Writer", "B. Writer"])}
            if rng.chance(0.5):
                meta["tags"] = sorted(rng.subset(["URBAN", "HIGHWAY", "COMFORT"], 0.5, at_least=1))
        if rng.chance(cfg.get("p_location", 0.0)):
            meta = dict(meta or {}, location=[rng.randint(1, 9999), round(rng.uniform(-80, 80), 4),
                                              round(rng.uniform(-170, 170), 4)])
        prec = rng.pick(cfg["precisions"])
        yield {"op": "construct", "w": w, "scn": rng.pick(scns), "fmt": fmt, "prec": prec, "meta": meta,
               "prec_form": rng.choice(["int", "int", "np", "default"])}
        for _ in range(rng.randint(1, 3)):
            op = {"op": "write", "w": w, "path": f"f{rng.randrange(cfg['n_paths'])}.{fmt}",
                  "mode": rng.weighted(["SKIP", "ALWAYS", "ASK"], [cfg["p_skip"], 1 - cfg["p_skip"], cfg.get("p_ask", 0.0)]),
                  "answer": rng.choice(["y", "n"]),
                  "method": "scenario" if rng.chance(0.3) else "full",
                  "validate": rng.chance(0.3) if cfg["buggify_validate"] else False,
                  "readback": rng.chance(cfg["p_readback"]), "path_form": rng.choice(["str", "str", "Path"])}
            if rng.chance(0.12):
                yield {"op": "clone", "w": w, "how": rng.choice(["copy", "deepcopy"])}
            r = rng.random()
            if "F-nodir" in cfg["faults"] and r < cfg["p_fault"]:
                op["fault"] = {"nodir": True}
            elif "F-ioerr" in cfg["faults"] and fmt == "pb" and r < 2 * cfg["p_fault"]:
                op["fault"] = {"ioerr": rng.pick([0, 1, 10, 100, 1000])}
            elif "F-diskfull" in cfg["faults"] and r < 3 * cfg["p_fault"]:
                op["fault"] = {"devfull": True}
                op["mode"] = "ALWAYS"
            yield op


def _clock_jumper(rng, run, cfg):
    while True:
        kind = rng.pick(["seconds", "to_midnight", "days", "year", "back"])
        now = run.clock.now
        if kind == "seconds":
            dt = rng.randint(1, 3600)
        elif kind == "to_midnight":
            nxt = (now + datetime.timedelta(days=1)).replace(hour=0, minute=0, second=0, microsecond=0)
            dt = int((nxt - now).total_seconds()) + rng.randint(0, 5)
        elif kind == "days":
            dt = rng.randint(1, 40) * 86400 + rng.randint(0, 86399)
        elif kind == "year":
            dt = 366 * 86400
        else:
            dt = -rng.randint(1, 3 * 86400)
        yield {"op": "clock", "dt": dt, "fault": True}


def _planter(rng, run, cfg):
    while True:
        fmt = rng.pick(["xml", "pb"])
        yield {"op": "plant", "path": f"f{rng.randrange(cfg['n_paths'])}.{fmt}",
               "content": rng.pick(["junk", "prev", "junk", "prev", "dir"]), "fault": True}


def _scn_mutator(rng, run, cfg):
    scns = sorted(run.universe["scenarios"])
    n = 0
    while True:
        n += 1
        # metadata defaults (author, tags, ...) are resolved when the writer is constructed and are therefore NOT
        # mutated here; lanelets, obstacles and planning problems are read at write time
        how = rng.pick(["translate", "remove_obstacle"])
        op = {"op": "mutate_scn", "scn": rng.pick(scns), "how": how}
        if how == "translate":
            op["d"] = [rng.uniform(-5, 5), rng.uniform(-5, 5)]
        if how == "author":
            op["value"] = f"author {n}"
        yield op


ZERO_KEYS = {"pos", "ori", "vel", "acc", "yaw", "slip", "steer", "c", "o", "vy"}


def _signed_zeros(rng, node, p, key=None):
    """Replace some real-valued leaves (positions, orientations, velocities, centres) by 0.0 or -0.0: two values
    that are equal, hash alike and are written differently."""
    if isinstance(node, dict):
        return {k: _signed_zeros(rng, v, p, k) for k, v in node.items()}
    if isinstance(node, list):
        return [_signed_zeros(rng, v, p, key) for v in node]
    if isinstance(node, float) and key in ZERO_KEYS and rng.chance(p):
        return rng.choice([0.0, -0.0])
    return node


class C15(Property):
    id = "C15"
    needs_zygote = True
    isolate_runs = True  # every run (and every replay) executes in a process that never ran anything before
    title = "A file writer's output depends only on its own inputs"
    tiers = {"quick": {"runs": 2400, "wall": 240, "chunk": 10}, "thorough": {"runs": 90000, "wall": 1700, "chunk": 25}}
    expected_probes = ["same-writer-writes-again", "foreign-construct-other-precision-between",
                       "foreign-protobuf-construct-before-xml-write", "skip-onto-existing", "always-onto-existing",
                       "midnight-between-two-writes-of-one-writer", "success-after-failed-write",
                       "both-write-methods-on-one-writer", "write-failed-as-twin", "identical-writers-compared",
                       "readback-ok", "clock-crossed-midnight", "clock-went-backwards", "write-after-scenario-changed", "target-is-a-directory", "asked-user-answer-y", "asked-user-answer-n",
                       "reader-object-reused-after-rewrite", "writer-cloned:copy", "writer-cloned:deepcopy",
                       "writer-constructed-with-the-default-precision"]
    assumptions = [
        "the pristine twin is the library itself (fresh writer, fork-isolated): a defect that a fresh writer shows "
        "too is C01/C02/C03 territory and invisible here by construction",
        "content is compared modulo the date stamp (XML: date attribute; protobuf: information.date)",
        "XML files are written by lxml from C: torn XML writes are not injected, only a missing target directory",
        "interleaving granularity is one public call",
    ]

    def gen_config(self, rng):
        faults = rng.subset(["F-clock", "F-exists", "F-nodir", "F-ioerr", "F-diskfull"], 0.6)
        return {"steps": rng.randint(6, 18), "n_writers": rng.randint(1, 4), "faults": sorted(faults),
                "fmt_weights": rng.pick([[1, 1], [3, 1], [1, 0], [1, 3]]),
                "precisions": sorted(rng.sample(range(1, 13), rng.randint(1, 4))),
                "n_paths": rng.randint(1, 4), "p_skip": rng.pick([0.0, 0.2, 0.5]), "p_fault": rng.pick([0.05, 0.1, 0.2]),
                "buggify_validate": rng.chance(0.5), "p_readback": rng.pick([0.0, 0.3, 1.0]),
                "mutate_inputs": rng.chance(0.35), "p_location": rng.pick([0.0, 0.3]), "p_ask": rng.pick([0.0, 0.2, 0.4])}

    def gen_universe(self, rng, cfg):
        scenarios = {}
        for j in range(rng.randint(1, 3)):
            ids = gen.IdAlloc(rng, 1, 200)
            net = gen.gen_network(rng, rows=rng.randint(1, 2), cols=rng.randint(1, 2), ids=ids, overlap=False,
                                  many_pts=0.2)
            net.pop("_geom", None)
            obstacles = [gen.gen_obstacle(rng, ids.take(), net, shape_kinds=("rect", "circ", "poly"), long_horizon=0.15)
                         for _ in range(rng.randint(0, 3))]
            spec = {"dt": 0.1, "network": net, "obstacles": obstacles, "tags": sorted(rng.subset(
                ["URBAN", "HIGHWAY", "INTERSTATE", "COMFORT"], 0.5, at_least=1)),
                "sid": {"country": "DEU", "map": f"Sim{j}", "map_id": j + 1}}
            if rng.chance(0.5):
                zr = rng.sub("zeros", j)
                obstacles = _signed_zeros(zr, obstacles, 0.15)
                net["signs"] = _signed_zeros(zr, net["signs"], 0.3)
                net["lights"] = _signed_zeros(zr, net["lights"], 0.3)
                spec["obstacles"] = obstacles
            pps = [gen.gen_planning_problem(rng, ids.take(), net) for _ in range(rng.randint(1, 2))]
            for pp in pps:
                # the protobuf writer indexes the goal-lanelet table for every goal state: keep it complete
                if pp["goal_lanelets"] is not None:
                    pp["goal_lanelets"] = {str(i): pp["goal_lanelets"].get(i, []) for i in range(len(pp["goals"]))}
            scenarios[f"s{j}"] = {"scenario": spec, "pps": pps}
        start = datetime.datetime(2000, 1, 1) + datetime.timedelta(seconds=rng.randrange(0, 36 * 366 * 86400))
        return {"scenarios": scenarios, "clock_start": start.isoformat()}

    def new_run(self, universe, cfg):
        return Run(universe, cfg)

    def make_clients(self, rng, cfg, run):
        out = []
        for j in range(cfg["n_writers"]):
            out.append(Client(f"user{j}", 3.0, _writer_user(rng.sub("user", j), run, f"u{j}", cfg)))
        if "F-clock" in cfg["faults"]:
            out.append(Client("clock", 1.0, _clock_jumper(rng.sub("clock"), run, cfg)))
        if "F-exists" in cfg["faults"]:
            out.append(Client("planter", 1.0, _planter(rng.sub("planter"), run, cfg)))
        if cfg.get("mutate_inputs"):
            out.append(Client("scn_mutator", 0.6, _scn_mutator(rng.sub("mut"), run, cfg)))
        return out

    def prune_universe(self, universe, trace):
        used = {e["op"]["scn"] for e in trace if e["op"]["op"] == "construct"}
        small = dict(universe, scenarios={k: v for k, v in universe["scenarios"].items() if k in used})
        if small != universe:
            yield small
        # drop obstacles / planning problems / network decorations one by one
        for k, s in universe["scenarios"].items():
            sc = s["scenario"]
            for i in range(len(sc.get("obstacles", []))):
                s2 = dict(sc, obstacles=sc["obstacles"][:i] + sc["obstacles"][i + 1:])
                yield dict(universe, scenarios=dict(universe["scenarios"], **{k: dict(s, scenario=s2)}))
            if len(s["pps"]) > 1:
                yield dict(universe, scenarios=dict(universe["scenarios"], **{k: dict(s, pps=s["pps"][:1])}))
            net = sc.get("network", {})
            for part in ("intersections", "signs", "lights"):
                if net.get(part):
                    n2 = dict(net, **{part: []})
                    if part != "intersections":
                        key = part
                        n2["lanelets"] = [dict(la, **{key: [], "stop": None}) for la in net["lanelets"]]
                    yield dict(universe, scenarios=dict(universe["scenarios"],
                                                        **{k: dict(s, scenario=dict(sc, network=n2))}))

    def simplify_op(self, op):
        if op["op"] == "write":
            if op.get("validate"):
                yield dict(op, validate=False)
            if op.get("readback"):
                yield dict(op, readback=False)
            if op.get("fault"):
                o = dict(op)
                o.pop("fault")
                yield o
            if op["method"] != "full":
                yield dict(op, method="full")
        if op["op"] == "construct":
            if op.get("meta"):
                yield dict(op, meta=None)
            if op["prec"] not in (1, 4):
                yield dict(op, prec=4)
                yield dict(op, prec=1)
        if op["op"] == "clock" and op["dt"] != 86400:
            yield dict(op, dt=86400)

    def describe_sim_time(self, sim_time, steps):
        return {"unit": "simulated seconds covered by the writers' clock (sum of |jumps|)", "seconds": sim_time,
                "steps": steps}

    def components(self):
        return {"real": ["commonroad CommonRoadFileWriter / XMLFileWriter / ProtobufFileWriter", "lxml", "protobuf",
                         "CommonRoadFileReader (read-back)", "tmpfs scratch directory (real files)",
                         "os.fork (pristine twin)"],
                "stub": ["file_writer_xml.datetime and file_writer_protobuf.datetime (simulated clock)",
                         "file_writer_protobuf.open (torn-write injection)", "builtins.input is never reached"]}


PROPERTY = C15()
