"""C11 — derived data never goes stale under mutation.

Querier clients warm the caches (occupancy_set, initial occupancy shape, lanelet polygon / distance,
STRtree + reverse map, cycle memo); mutator clients change primary data through the public API;
restarts (pickle / deepcopy) carry warm caches along.  Oracle: every answer of the mutated object
equals the answer of an object freshly rebuilt through the public constructors from the current
primary data.  update_initial_state is additionally checked against a list model of the histories.
"""
import copy
import math
import pickle

import numpy as np

from commonroad.common.util import AngleInterval, Interval
from commonroad.geometry.shape import Circle, Polygon, Rectangle, ShapeGroup
from commonroad.prediction.prediction import Occupancy, SetBasedPrediction, TrajectoryPrediction
from commonroad.scenario.lanelet import Lanelet, LaneletNetwork
from commonroad.scenario.scenario import Scenario
from commonroad.scenario.obstacle import DynamicObstacle, PhantomObstacle, StaticObstacle
from commonroad.scenario.state import CustomState
from commonroad.scenario.traffic_light import TrafficLightCycle, TrafficLightCycleElement
from commonroad.scenario.trajectory import Trajectory

from crkit import build, gen
from crkit.abstract import approx_equal, occ_desc, shape_desc, state_desc, value_desc
from simkit.engine import Client, HarnessError, Property, RunBase, Violation

TOL = 1e-9


# ------------------------------------------------------------------ fresh reconstruction from primary data
def rebuild_shape(s):
    if s is None:
        return None
    if isinstance(s, Rectangle):
        return Rectangle(s.length, s.width, np.array(s.center, dtype=float), s.orientation)
    if isinstance(s, Circle):
        return Circle(s.radius, np.array(s.center, dtype=float))
    if isinstance(s, Polygon):
        return Polygon(np.array(s.vertices, dtype=float))
    if isinstance(s, ShapeGroup):
        return ShapeGroup([rebuild_shape(x) for x in s.shapes])
    raise HarnessError(f"shape {type(s)}")


def rebuild_value(v):
    if isinstance(v, np.ndarray):
        return np.array(v)
    if isinstance(v, AngleInterval):
        return AngleInterval(v.start, v.end)
    if isinstance(v, Interval):
        return Interval(v.start, v.end)
    if isinstance(v, (Rectangle, Circle, Polygon, ShapeGroup)):
        return rebuild_shape(v)
    return v


def rebuild_state(st):
    kw = {a: rebuild_value(getattr(st, a)) for a in st.attributes}
    return type(st)(**kw)


def rebuild_prediction(p):
    if p is None:
        return None
    if isinstance(p, TrajectoryPrediction):
        tr = p.trajectory
        return TrajectoryPrediction(Trajectory(tr.initial_time_step, [rebuild_state(s) for s in tr.state_list]),
                                    rebuild_shape(p.shape))
    if isinstance(p, SetBasedPrediction):
        return SetBasedPrediction(p.initial_time_step,
                                  [Occupancy(rebuild_value(o.time_step), rebuild_shape(o.shape))
                                   for o in p.occupancy_set])
    raise HarnessError(f"prediction {type(p)}")


def rebuild_obstacle(ob):
    if isinstance(ob, StaticObstacle):
        return StaticObstacle(ob.obstacle_id, ob.obstacle_type, rebuild_shape(ob.obstacle_shape),
                              rebuild_state(ob.initial_state))
    if isinstance(ob, DynamicObstacle):
        return DynamicObstacle(ob.obstacle_id, ob.obstacle_type, rebuild_shape(ob.obstacle_shape),
                               rebuild_state(ob.initial_state), rebuild_prediction(ob.prediction))
    if isinstance(ob, PhantomObstacle):
        return PhantomObstacle(ob.obstacle_id, rebuild_prediction(ob.prediction))
    raise HarnessError(f"obstacle {type(ob)}")


def rebuild_lanelet(la):
    return Lanelet(np.array(la.left_vertices), np.array(la.center_vertices), np.array(la.right_vertices),
                   la.lanelet_id)


def rebuild_network(net):
    return LaneletNetwork.create_from_lanelet_list([rebuild_lanelet(la) for la in net.lanelets], cleanup_ids=False)


def rebuild_cycle(c):
    return TrafficLightCycle([TrafficLightCycleElement(e.state, e.duration) for e in c.cycle_elements],
                             time_offset=c.time_offset, active=c.active)


# ------------------------------------------------------------------ answers (plain data)
def horizon(ob):
    if isinstance(ob, PhantomObstacle):
        p = ob.prediction
        ts = [o.time_step for o in p.occupancy_set if isinstance(o.time_step, int)] if p is not None else []
        return (min(ts) - 1, max(ts) + 1) if ts else (0, 1)
    t0 = ob.initial_state.time_step
    t1 = t0
    if isinstance(ob, DynamicObstacle) and ob.prediction is not None:
        p = ob.prediction
        if isinstance(p, TrajectoryPrediction):
            t1 = p.trajectory.initial_time_step + len(p.trajectory.state_list) - 1
        else:
            ts = [o.time_step for o in p.occupancy_set if isinstance(o.time_step, int)]
            t1 = max(ts) if ts else t0
    return (max(t0 - 1, 0), max(t1, t0) + 1)


def ans(fn):
    """An answer is a value or the fact that the query raised (a query that fails on the mutated object but not
    on the fresh one is a stale answer too)."""
    try:
        return fn()
    except Exception as e:  # noqa
        return ["raised", type(e).__name__]


def occ_full(occ):
    """occupancy descriptor plus the derived geometry of its shape (vertices of rectangles: lazily computed and
    cached by the shape object, so reading them is itself a cache-warming query)"""
    d = occ_desc(occ)
    if occ is None:
        return d
    def verts(sh):
        if isinstance(sh, Rectangle):
            return [[float(x) for x in v] for v in np.asarray(sh.vertices).tolist()]
        if isinstance(sh, ShapeGroup):
            return [verts(x) for x in sh.shapes]
        return None
    return [d, verts(occ.shape)]


def obstacle_answers(ob, ts, what=("occ", "state")):
    out = {}
    for t in ts:
        row = []
        if "occ" in what:
            row.append(ans(lambda: occ_full(ob.occupancy_at_time(t))))
        if "state" in what and not isinstance(ob, PhantomObstacle):
            row.append(ans(lambda: state_desc(ob.state_at_time(np.int64(t) if t % 2 else t))))
        out[t] = row
    return out


def lanelet_answers(la, what=("poly", "dist")):
    out = {}
    if "poly" in what:
        out["poly"] = ans(lambda: shape_desc(la.polygon))
    if "dist" in what:
        out["dist"] = ans(lambda: [float(x) for x in la.distance])
    return out


def light_answers(cycle_or_light, ts):
    return [ans(lambda: cycle_or_light.get_state_at_time_step(np.int64(t) if t % 3 == 0 else t).name) for t in ts]


def cycle_ts(c):
    total = sum(e.duration for e in c.cycle_elements)
    return list(range(0, c.time_offset + 2 * total + 2))


def point_on(la, seg, t, off):
    c, l, r = la.center_vertices, la.left_vertices, la.right_vertices
    k = min(seg, len(c) - 2)
    p = c[k] + t * (c[k + 1] - c[k])
    if off:
        # move towards the left (+) or right (-) boundary, staying inside: off in (-0.8, 0.8)
        b = (l if off > 0 else r)
        q = b[k] + t * (b[k + 1] - b[k])
        p = p + abs(off) * (q - p)
    return p


class Run(RunBase):
    def __init__(self, universe, cfg):
        super().__init__(universe, cfg)
        self.sc = build.build_scenario(universe["scenario"])
        self.standalone = {k: build.build_lanelet(s) for k, s in universe["standalone"].items()}
        self.pool = universe["pool"]  # key -> lanelet spec, can be added to the network
        self.hist = {}  # obstacle id -> dict of four model lists
        for o in self.sc.dynamic_obstacles:
            self.hist[o.obstacle_id] = {"history": [], "signal": [], "center": [], "shape": []}
        self.warm = set()
        self.pending = set()
        self.last_mut = "none"
        self.via_scenario = {la.lanelet_id for la in self.sc.lanelet_network.lanelets}
        self.shadow = None  # the sibling instance after a fork (deepcopy / pickle that keeps the original alive)

    _FIELDS = ("sc", "standalone", "hist", "via_scenario")

    def _swap(self):
        cur = {f: getattr(self, f) for f in self._FIELDS}
        for f in self._FIELDS:
            setattr(self, f, self.shadow[f])
        self.shadow = cur

    def _check_shadow(self):
        """Sibling isolation: whatever was done to this instance, the other one still answers like a fresh object
        built from ITS primary data."""
        if self.shadow is None:
            return
        self._swap()
        try:
            self._in_shadow = True
            self._sweep()
        finally:
            self._in_shadow = False
            self._swap()

    # ---------------------------------------------------------------- helpers
    def _net_ids(self):
        return sorted(la.lanelet_id for la in self.sc.lanelet_network.lanelets)

    def _obstacle(self, oid):
        return self.sc.obstacle_by_id(oid)

    def enabled(self, op):
        k = op["op"]
        sc = self.sc
        if k in ("q_occ", "q_state", "tr_obstacle", "tr_prediction", "set_prediction", "set_trajectory", "set_shape",
                 "update_initial", "update_prediction", "set_initial"):
            ob = None
            for o in sc.obstacles:
                if o.obstacle_id == op["id"]:
                    ob = o
            if ob is None:
                return False
            if k in ("set_prediction", "update_initial", "update_prediction"):
                return isinstance(ob, DynamicObstacle)
            if k == "set_initial":
                return isinstance(ob, (DynamicObstacle, StaticObstacle))
            if k == "tr_prediction":
                return getattr(ob, "prediction", None) is not None
            if k in ("set_trajectory", "set_shape"):
                return isinstance(ob, DynamicObstacle) and isinstance(ob.prediction, TrajectoryPrediction)
            return True
        if k in ("q_poly", "q_dist"):
            return (op.get("standalone") in self.standalone) if "standalone" in op else op["id"] in self._net_ids()
        if k == "tr_lanelet":
            return op["standalone"] in self.standalone
        if k == "add_lanelet":
            return op["key"] in self.pool and self.pool[op["key"]]["id"] not in self._net_ids() and \
                not any(o.obstacle_id == self.pool[op["key"]]["id"] for o in sc.obstacles)
        if k == "add_from_network":
            return all(x in self.pool for x in op["keys"]) and len(op["keys"]) >= 1 and \
                not any(o.obstacle_id in [self.pool[x]["id"] for x in op["keys"]] for o in sc.obstacles)
        if k == "add_batch":
            ids = [self.pool[x]["id"] for x in op["keys"] if x in self.pool]
            return len(ids) == len(op["keys"]) >= 2 and len(set(ids)) == len(ids) and \
                not (set(ids) & set(self._net_ids())) and \
                not any(o.obstacle_id in ids for o in sc.obstacles)
        if k == "replace_lanelet":
            return op["id"] in self._net_ids()
        if k == "remove_lanelet":
            # scenario-level removal only for lanelets the scenario knows about (added through it); network-level
            # removal only for lanelets added at network level (the id pool is C09's business, not ours)
            return op["id"] in self._net_ids() and ((op["id"] in self.via_scenario) == (op["level"] == "scenario"))
        if k in ("q_light", "set_cycle", "set_offset", "replace_cycle"):
            lt = sc.lanelet_network.find_traffic_light_by_id(op["id"])
            return lt is not None and lt.traffic_light_cycle is not None
        if k == "swap":
            return self.shadow is not None
        return k in ("q_scn_occ", "q_scn_states", "q_pos", "q_shape", "tr_scenario", "tr_network", "restart", "sweep")

    # ---------------------------------------------------------------- the oracle
    def _cmp(self, kind, got, exp, what):
        if not approx_equal(got, exp, TOL):
            if getattr(self, "_in_shadow", False):
                raise Violation(f"C11/sibling-affected/{kind}<-{self.last_mut}",
                                f"{what} of the OTHER copy (made by an earlier deepcopy / pickle): it answers "
                                f"{_short(got)} but an object freshly built from its own primary data answers "
                                f"{_short(exp)} after {self.last_mut} on this copy",
                                {"got": _jsonable(got), "fresh": _jsonable(exp)})
            raise Violation(f"C11/stale/{kind}<-{self.last_mut}",
                            f"{what}: the mutated object answers {_short(got)} but an object freshly built from its "
                            f"current primary data answers {_short(exp)} (last mutation: {self.last_mut})",
                            {"got": _jsonable(got), "fresh": _jsonable(exp)})
        if (kind, self.last_mut) in self.pending:
            self.pending.discard((kind, self.last_mut))
            self.probe(f"cell:{kind}<-{self.last_mut}")

    def _check_obstacle(self, ob, what=("occ", "state")):
        lo, hi = horizon(ob)
        ts = list(range(lo, hi + 1))
        fresh = rebuild_obstacle(ob)
        got = obstacle_answers(ob, ts, what)
        exp = obstacle_answers(fresh, ts, what)
        for t in ts:
            i = 0
            if "occ" in what:
                self._cmp("occupancy_at_time", got[t][i], exp[t][i], f"obstacle {ob.obstacle_id} occupancy at t={t}")
                i += 1
            if "state" in what and not isinstance(ob, PhantomObstacle):
                self._cmp("state_at_time", got[t][i], exp[t][i], f"obstacle {ob.obstacle_id} state at t={t}")
        if isinstance(ob, DynamicObstacle) and isinstance(ob.prediction, TrajectoryPrediction) and "occ" in what:
            p, fp = ob.prediction, fresh.prediction
            for t in ts:
                self._cmp("prediction.occupancy_at_time_step", ans(lambda: occ_desc(p.occupancy_at_time_step(t))),
                          ans(lambda: occ_desc(fp.occupancy_at_time_step(t))), f"prediction of obstacle {ob.obstacle_id} at t={t}")
        self.warm.update({"occupancy_at_time", "state_at_time", "prediction.occupancy_at_time_step"})

    def _check_lanelet(self, la, what=("poly", "dist"), label="lanelet"):
        fresh = rebuild_lanelet(la)
        got, exp = lanelet_answers(la, what), lanelet_answers(fresh, what)
        if "poly" in what:
            self._cmp("lanelet.polygon", got["poly"], exp["poly"], f"{label} {la.lanelet_id} polygon")
            self.warm.add("lanelet.polygon")
        if "dist" in what:
            self._cmp("lanelet.distance", got["dist"], exp["dist"], f"{label} {la.lanelet_id} cumulative distance")
            self.warm.add("lanelet.distance")

    def _lookup_points(self, pts):
        net = self.sc.lanelet_network
        out = []
        for p in pts:
            if "far" in p:
                out.append(np.array(p["far"], dtype=float))
            else:
                la = net.find_lanelet_by_id(p["lanelet"])
                if la is not None:
                    out.append(point_on(la, p["seg"], p["t"], p.get("off", 0.0)))
        if out:
            out.extend(np.array(g, dtype=float) for g in getattr(self, "ghosts", []))  # where removed lanelets lay
        return out

    def _check_lookup_pos(self, pts):
        net = self.sc.lanelet_network
        points = self._lookup_points(pts)
        if not points:
            return
        fresh = rebuild_network(net)
        got = ans(lambda: [sorted(x) for x in net.find_lanelet_by_position(points)])
        exp = ans(lambda: [sorted(x) for x in fresh.find_lanelet_by_position(points)])
        self._cmp("find_lanelet_by_position", got, exp, f"lookup of {len(points)} points")
        self.warm.add("find_lanelet_by_position")

    def _check_lookup_shape(self, q):
        net = self.sc.lanelet_network
        la = net.find_lanelet_by_id(q["lanelet"]) if "lanelet" in q else None
        if la is None:
            pos = np.array(q.get("far", [500.0, 500.0]), dtype=float)
        else:
            pos = point_on(la, q["seg"], q["t"], 0.0)
        shape = build.build_shape(gen._place(q["shape"], [float(pos[0]), float(pos[1])], q.get("ori", 0.0)))
        fresh = rebuild_network(net)
        got = ans(lambda: sorted(net.find_lanelet_by_shape(shape)))
        exp = ans(lambda: sorted(fresh.find_lanelet_by_shape(shape)))
        self._cmp("find_lanelet_by_shape", got, exp, f"lookup of a {q['shape']['t']}")
        self.warm.add("find_lanelet_by_shape")

    def _check_light(self, lt):
        c = lt.traffic_light_cycle
        if c is None or not c.cycle_elements:
            return
        ts = cycle_ts(c)
        fresh = rebuild_cycle(c)
        exp = light_answers(fresh, ts)
        self._cmp("cycle.get_state_at_time_step", light_answers(c, ts), exp, f"cycle of light {lt.traffic_light_id}")
        self._cmp("light.get_state_at_time_step", light_answers(lt, ts), exp, f"light {lt.traffic_light_id}")
        self.warm.update({"cycle.get_state_at_time_step", "light.get_state_at_time_step"})

    def _check_scenario_level(self, ts):
        sc = self.sc
        fresh_obs = [rebuild_obstacle(o) for o in sc.obstacles]
        for t in ts:
            got = ans(lambda: [occ_desc(o) for o in sc.occupancies_at_time_step(t)])
            exp = ans(lambda: [occ_desc(o.occupancy_at_time(t)) for o in fresh_obs
                               if o.occupancy_at_time(t) is not None])
            self._cmp("scenario.occupancies_at_time_step", got, exp, f"scenario occupancies at t={t}")
            gs = ans(lambda: {k: state_desc(v) for k, v in sc.obstacle_states_at_time_step(t).items()})
            def fresh_states():
                es = {}
                for o in fresh_obs:
                    if isinstance(o, DynamicObstacle) and o.state_at_time(t) is not None:
                        es[o.obstacle_id] = state_desc(o.state_at_time(t))
                    elif isinstance(o, StaticObstacle):
                        es[o.obstacle_id] = state_desc(o.initial_state)
                return es
            es = ans(fresh_states)
            self._cmp("scenario.obstacle_states_at_time_step", gs, es, f"scenario obstacle states at t={t}")
        self.warm.update({"scenario.occupancies_at_time_step", "scenario.obstacle_states_at_time_step"})

    def _sweep(self):
        sc = self.sc
        lists = [id(o.prediction.trajectory.state_list) for o in sc.dynamic_obstacles
                 if isinstance(o.prediction, TrajectoryPrediction)]
        if len(lists) != len(set(lists)):
            self.probe("two-obstacles-share-one-state-list")
        for ob in sc.obstacles:
            self._check_obstacle(ob)
        for la in sc.lanelet_network.lanelets:
            self._check_lanelet(la)
        for k in sorted(self.standalone):
            self._check_lanelet(self.standalone[k], label="stand-alone lanelet")
        for lt in sc.lanelet_network.traffic_lights:
            self._check_light(lt)
        ids = self._net_ids()
        if ids:
            pts = [{"lanelet": i, "seg": 0, "t": 0.5, "off": o} for i in ids for o in (0.0, 0.6, -0.6)]
            pts.append({"far": [987.0, -654.0]})
            self._check_lookup_pos(pts)
            for i in ids[:4]:
                self._check_lookup_shape({"lanelet": i, "seg": 0, "t": 0.3, "shape": {"t": "rect", "l": 3.0, "w": 1.5},
                                          "ori": 0.3})
                self._check_lookup_shape({"lanelet": i, "seg": 0, "t": 0.7, "shape": {"t": "circ", "r": 1.2}})
        elif getattr(self, "ghosts", None):
            # the network has been emptied: nothing may be found where its lanelets lay
            self.probe("lookup-on-emptied-network")
            self._check_lookup_pos([{"far": [987.0, -654.0]}])
            self._check_lookup_shape({"far": self.ghosts[-1], "shape": {"t": "rect", "l": 3.0, "w": 1.5}})
        self._check_scenario_level([0, 1, 2, 3])
        self._check_histories()

    def _check_histories(self):
        for o in self.sc.dynamic_obstacles:
            m = self.hist.get(o.obstacle_id)
            if m is None:
                continue
            got = {"history": [state_desc(s) for s in o.history],
                   "signal": [None if s is None else s.time_step for s in o.signal_history],
                   "center": [None if s is None else sorted(s) for s in o.center_lanelet_ids_history],
                   "shape": [None if s is None else sorted(s) for s in o.shape_lanelet_ids_history]}
            lens = {k: len(v) for k, v in got.items()}
            if len(set(lens.values())) != 1:
                raise Violation("C11/history-lengths-differ/update_initial_state",
                                f"history lists of obstacle {o.obstacle_id} have different lengths {lens}")
            for k in got:
                if not approx_equal(got[k], m[k], TOL):
                    raise Violation(f"C11/history-wrong/update_initial_state[{k}]",
                                    f"obstacle {o.obstacle_id}: {k} history is {_short(got[k])}, expected the most "
                                    f"recent previous values {_short(m[k])}")

    def _mutated(self, name):
        self.last_mut = name
        self.pending = {(q, name) for q in self.warm}

    def _after(self, touched):
        """Compare touched objects always; everything else when the run's buggify switch says so."""
        mode = self.cfg["sweep"]
        if mode == "sparse" and not getattr(self, "_in_shadow", False):
            # no look right after the mutation: derived data that is rebuilt lazily "on first use" must also survive a
            # second mutation arriving before any query.  The queriers' operations and the final sweep decide.
            self.probe("mutation-not-followed-by-a-query")
            return
        if mode == "always" or (mode == "half" and self._coin()):
            self._sweep()
            return
        for kind, ref in touched:
            if kind == "obstacle":
                ob = self._obstacle(ref)
                if ob is not None:
                    self._check_obstacle(ob)
            elif kind == "network":
                for la in self.sc.lanelet_network.lanelets:
                    self._check_lanelet(la)
                ids = self._net_ids()
                if ids:
                    self._check_lookup_pos([{"lanelet": i, "seg": 0, "t": 0.5} for i in ids] + [{"far": [987.0, -654.0]}])
                    self._check_lookup_shape({"lanelet": ids[0], "seg": 0, "t": 0.4,
                                              "shape": {"t": "rect", "l": 3.0, "w": 1.5}})
                elif getattr(self, "ghosts", None):
                    self.probe("lookup-on-emptied-network")
                    self._check_lookup_pos([{"far": [987.0, -654.0]}])
                    self._check_lookup_shape({"far": self.ghosts[-1], "shape": {"t": "rect", "l": 3.0, "w": 1.5}})
            elif kind == "standalone":
                self._check_lanelet(self.standalone[ref], label="stand-alone lanelet")
            elif kind == "light":
                lt = self.sc.lanelet_network.find_traffic_light_by_id(ref)
                if lt is not None:
                    self._check_light(lt)
            elif kind == "all_obstacles":
                for ob in self.sc.obstacles:
                    self._check_obstacle(ob)
        self._check_histories()

    def _coin(self):
        # deterministic pseudo coin derived from the step count (the engine's PRNG is not available in replay)
        self._coin_n = getattr(self, "_coin_n", 0) + 1
        return (self._coin_n * 2654435761) % 7 < 3

    # ---------------------------------------------------------------- ops
    def apply(self, op):
        out = getattr(self, "_op_" + op["op"])(op)
        if self.shadow is not None and op["op"] not in ("swap",) and not op["op"].startswith("q_"):
            self._check_shadow()
        self.note_state([self.last_mut, sorted(self.warm), self._net_ids(), self.shadow is not None])
        return out

    def finish(self):
        self.last_mut = self.last_mut + "+end-of-run"
        self._sweep()
        self._check_shadow()

    def _op_swap(self, op):
        self._swap()
        self.probe("continued-on-the-other-copy")
        return "ok"

    # queries -----------------------------------------------------------
    def _op_q_occ(self, op):
        self._check_obstacle(self._obstacle(op["id"]), what=("occ",))
        return "ok"

    def _op_q_state(self, op):
        self._check_obstacle(self._obstacle(op["id"]), what=("state",))
        return "ok"

    def _op_q_scn_occ(self, op):
        self._check_scenario_level([op["t"]])
        return "ok"

    _op_q_scn_states = _op_q_scn_occ

    def _lanelet_of(self, op):
        if "standalone" in op:
            return self.standalone[op["standalone"]]
        return self.sc.lanelet_network.find_lanelet_by_id(op["id"])

    def _op_q_poly(self, op):
        self._check_lanelet(self._lanelet_of(op), what=("poly",))
        return "ok"

    def _op_q_dist(self, op):
        self._check_lanelet(self._lanelet_of(op), what=("dist",))
        return "ok"

    def _op_q_pos(self, op):
        self._check_lookup_pos(op["pts"])
        return "ok"

    def _op_q_shape(self, op):
        self._check_lookup_shape(op)
        return "ok"

    def _op_q_light(self, op):
        self._check_light(self.sc.lanelet_network.find_traffic_light_by_id(op["id"]))
        return "ok"

    def _op_sweep(self, op):
        self._sweep()
        return "ok"

    # mutators ----------------------------------------------------------
    def _try(self, name, fn):
        """A mutator that raises is an op-failed event (not a C11 violation by itself)."""
        self._mutated(name)
        try:
            fn()
            return "ok"
        except Exception as e:  # noqa
            self.probe("mutator-raised:" + name)
            return {"raised": type(e).__name__}

    def _op_tr_scenario(self, op):
        r = self._try("translate_rotate[scenario]",
                      lambda: self.sc.translate_rotate(np.array(op["d"], dtype=float), op["a"]))
        self._after([("all_obstacles", None), ("network", None)])
        return r

    def _op_tr_network(self, op):
        r = self._try("translate_rotate[network]",
                      lambda: self.sc.lanelet_network.translate_rotate(np.array(op["d"], dtype=float), op["a"]))
        self._after([("network", None)])
        return r

    def _op_tr_obstacle(self, op):
        ob = self._obstacle(op["id"])
        r = self._try("translate_rotate[obstacle]", lambda: ob.translate_rotate(np.array(op["d"], dtype=float), op["a"]))
        self._after([("obstacle", op["id"])])
        return r

    def _op_tr_prediction(self, op):
        ob = self._obstacle(op["id"])
        r = self._try("translate_rotate[prediction]",
                      lambda: ob.prediction.translate_rotate(np.array(op["d"], dtype=float), op["a"]))
        self._after([("obstacle", op["id"])])
        return r

    def _op_tr_lanelet(self, op):
        la = self.standalone[op["standalone"]]
        r = self._try("translate_rotate[lanelet]", lambda: la.translate_rotate(np.array(op["d"], dtype=float), op["a"]))
        self._after([("standalone", op["standalone"])])
        return r

    def _op_set_prediction(self, op):
        ob = self._obstacle(op["id"])
        pred = build.build_prediction(op["pred"], ob.obstacle_shape)

        def f():
            ob.prediction = pred
        r = self._try("prediction=", f)
        self._after([("obstacle", op["id"])])
        return r

    def _op_update_prediction(self, op):
        ob = self._obstacle(op["id"])
        pred = build.build_prediction(op["pred"], ob.obstacle_shape)
        r = self._try("update_prediction", lambda: ob.update_prediction(pred, []))
        self._after([("obstacle", op["id"])])
        return r

    def _op_set_trajectory(self, op):
        ob = self._obstacle(op["id"])
        variant = op.get("variant", "new")
        if variant == "new":
            states = [build.build_state(s) for s in op["states"]]

            def f():
                ob.prediction.trajectory = Trajectory(states[0].time_step, states)
        elif variant == "shifted":
            # the same motion somewhere else: every attribute but the position stays as it is
            old = ob.prediction.trajectory
            states = [rebuild_state(s) for s in old.state_list]
            for s in states:
                if isinstance(s.position, np.ndarray):
                    s.position = np.array(s.position, dtype=float) + np.array(op["d"], dtype=float)
                else:  # an uncertain position (a region): move the region
                    s.position = s.position.translate_rotate(np.array(op["d"], dtype=float), 0.0)

            def f():
                ob.prediction.trajectory = Trajectory(old.initial_time_step, states)
            self.probe("trajectory-replaced-by-shifted-copy")
        else:
            # the caller takes the trajectory object, transforms it and assigns it again
            tr = ob.prediction.trajectory

            def f():
                tr.translate_rotate(np.array(op["d"], dtype=float), op.get("a", 0.0))
                ob.prediction.trajectory = tr
            self.probe("trajectory-object-transformed-and-reassigned")
        r = self._try("prediction.trajectory=", f)
        self._after([("obstacle", op["id"])])
        return r

    def _op_set_shape(self, op):
        ob = self._obstacle(op["id"])

        def f():
            ob.prediction.shape = build.build_shape(op["shape"])
        r = self._try("prediction.shape=", f)
        self._after([("obstacle", op["id"])])
        return r

    def _op_update_initial(self, op):
        ob = self._obstacle(op["id"])
        m = self.hist[op["id"]]
        old = {"history": state_desc(ob.initial_state),
               "signal": None if ob.initial_signal_state is None else ob.initial_signal_state.time_step,
               "center": None if ob.initial_center_lanelet_ids is None else sorted(ob.initial_center_lanelet_ids),
               "shape": None if ob.initial_shape_lanelet_ids is None else sorted(ob.initial_shape_lanelet_ids)}
        st = build.build_state(dict(op["state"], cls="initial"))
        sig = build.build_signal(op.get("signal"))
        cen = None if op.get("center") is None else set(op["center"])
        shp = None if op.get("shape") is None else set(op["shape"])
        n = op["max_len"]
        self._mutated("update_initial_state")
        try:
            ob.update_initial_state(st, sig, cen, shp, max_history_length=n)
        except Exception as e:  # noqa
            self.probe("mutator-raised:update_initial_state")
            self._after([("obstacle", op["id"])])
            return {"raised": type(e).__name__}
        for k in m:
            m[k] = (m[k] + [old[k]])[-n:]
        if len(m["history"]) == n:
            self.probe("history-truncation-hit")
        got = state_desc(ob.initial_state)
        if not approx_equal(got, state_desc(st), TOL):
            raise Violation("C11/initial-state-not-updated/update_initial_state",
                            f"initial state after update_initial_state is {_short(got)}")
        self._after([("obstacle", op["id"])])
        return "ok"

    def _op_set_initial(self, op):
        ob = self._obstacle(op["id"])
        st = build.build_state(dict(op["state"], cls="initial", t=ob.initial_state.time_step))

        def f():
            ob.initial_state = st
        r = self._try("initial_state=", f)
        self._after([("obstacle", op["id"])])
        return r

    def _op_add_lanelet(self, op):
        la = build.build_lanelet(self.pool[op["key"]])
        if op["level"] == "scenario":
            r = self._try("add_lanelet[scenario]", lambda: self.sc.add_objects(la))
        else:
            r = self._try("add_lanelet[network]", lambda: self.sc.lanelet_network.add_lanelet(la))
        if r == "ok" and op["level"] == "scenario":
            self.via_scenario.add(la.lanelet_id)
        self._after([("network", None)])
        return r

    def _op_add_from_network(self, op):
        """add_lanelets_from_network: lanelets whose id is already present are refused (possibly in the middle of the
        batch); whatever was taken over has to be found by the lookups afterwards."""
        other = LaneletNetwork.create_from_lanelet_list([build.build_lanelet(self.pool[k]) for k in op["keys"]])
        r = self._try("add_lanelets_from_network", lambda: self.sc.lanelet_network.add_lanelets_from_network(other))
        if any(self.pool[k]["id"] in self._net_ids() for k in op["keys"]):
            self.probe("merge-with-id-clash")
        self._after([("network", None)])
        return r

    def _op_add_batch(self, op):
        """The documented bulk pattern: add several lanelets with rtree=False, the last one with rtree=True (which
        has to index ALL of them)."""
        lanelets = [build.build_lanelet(self.pool[k]) for k in op["keys"]]
        net = self.sc.lanelet_network

        def f():
            for la in lanelets[:-1]:
                net.add_lanelet(la, rtree=False)
            net.add_lanelet(lanelets[-1], rtree=True)
        r = self._try("add_lanelet[batch,rtree=False..True]", f)
        self._after([("network", None)])
        return r

    def _op_replace_lanelet(self, op):
        """A lanelet is exchanged for ANOTHER lanelet under its id with the documented deferred-index pattern:
        remove_lanelet(id, rtree=False), then add_lanelet(new) - which has to index the new geometry although the
        set and order of lanelet ids is what it was before."""
        net = self.sc.lanelet_network
        old = net.find_lanelet_by_id(op["id"])
        c = old.center_vertices
        self.ghosts = (getattr(self, "ghosts", []) + [[float(x) for x in (c[0] + c[1]) / 2]])[-6:]
        d = np.array([op["dx"], op["dy"]], dtype=float)
        new = Lanelet(left_vertices=old.left_vertices + d, center_vertices=old.center_vertices + d,
                      right_vertices=old.right_vertices + d, lanelet_id=old.lanelet_id,
                      predecessor=list(old.predecessor), successor=list(old.successor),
                      adjacent_left=old.adj_left, adjacent_left_same_direction=old.adj_left_same_direction,
                      adjacent_right=old.adj_right, adjacent_right_same_direction=old.adj_right_same_direction)

        def f():
            net.remove_lanelet(op["id"], rtree=False)
            net.add_lanelet(new)
        r = self._try("replace_lanelet[network,rtree=False+add]", f)
        self.probe("lanelet-replaced-under-its-id")
        self._after([("network", None)])
        return r

    def _op_remove_lanelet(self, op):
        la0 = self.sc.lanelet_network.find_lanelet_by_id(op["id"])
        if la0 is not None:
            c = la0.center_vertices
            self.ghosts = (getattr(self, "ghosts", []) + [[float(x) for x in (c[0] + c[1]) / 2]])[-6:]
        if op["level"] == "scenario" and op.get("intruder"):
            # a list removal that fails half-way: the lanelet, then one the scenario does not know
            la = self.sc.lanelet_network.find_lanelet_by_id(op["id"])
            other = build.build_lanelet({"id": 9000, "left": [[900, 1], [910, 1]], "center": [[900, 0], [910, 0]],
                                         "right": [[900, -1], [910, -1]]})
            lst = [la, other] if op["intruder"] in ("after", "middle") else [other, la]
            if op["intruder"] == "middle":
                # ... and a further lanelet of the scenario behind it, which the failing call never reaches
                more = [x for x in self.sc.lanelet_network.lanelets
                        if x.lanelet_id in self.via_scenario and x.lanelet_id != op["id"]]
                lst.append(more[0] if more else build.build_lanelet(
                    {"id": 9001, "left": [[900, 11], [910, 11]], "center": [[900, 10], [910, 10]],
                     "right": [[900, 9], [910, 9]]}))
            self.faults["F-midbatch"] += 1
            r = self._try("remove_lanelet[scenario,list with a foreign lanelet]", lambda: self.sc.remove_lanelet(lst))
            if self.sc.lanelet_network.find_lanelet_by_id(op["id"]) is not None:
                self._after([("network", None)])
                return r
        elif op["level"] == "scenario":
            la = self.sc.lanelet_network.find_lanelet_by_id(op["id"])
            r = self._try("remove_lanelet[scenario]", lambda: self.sc.remove_lanelet(la))
        else:
            r = self._try("remove_lanelet[network]", lambda: self.sc.lanelet_network.remove_lanelet(op["id"]))
        self.via_scenario.discard(op["id"])
        self._after([("network", None)])
        return r

    def _op_set_cycle(self, op):
        lt = self.sc.lanelet_network.find_traffic_light_by_id(op["id"])
        variant = op.get("variant", "new")
        if variant == "new":
            def f():
                lt.traffic_light_cycle.cycle_elements = [TrafficLightCycleElement(build.TrafficLightState[n], d)
                                                         for n, d in op["cycle"]]
        else:
            # the caller edits the elements it got from the getter and hands them to the setter again
            # (the same list object, or a new list of the same element objects)
            def f():
                c = lt.traffic_light_cycle
                els = c.cycle_elements
                j = op["j"] % len(els)
                if variant == "edit_duration":
                    els[j].duration = els[j].duration + op["delta"]
                elif variant == "drop" and len(els) > 1:
                    del els[j]
                else:
                    els.append(TrafficLightCycleElement(els[j].state, op["delta"]))
                c.cycle_elements = els if op.get("same_list") else list(els)
            self.probe("cycle-edited-in-place-and-reassigned")
        r = self._try("cycle_elements=", f)
        self._after([("light", op["id"])])
        return r

    def _op_set_offset(self, op):
        lt = self.sc.lanelet_network.find_traffic_light_by_id(op["id"])

        def f():
            lt.traffic_light_cycle.time_offset = op["offset"]
        r = self._try("time_offset=", f)
        self._after([("light", op["id"])])
        return r

    def _op_replace_cycle(self, op):
        lt = self.sc.lanelet_network.find_traffic_light_by_id(op["id"])

        def f():
            lt.traffic_light_cycle = build.build_cycle(op["cycle"], op["offset"])
        r = self._try("traffic_light_cycle=", f)
        self._after([("light", op["id"])])
        return r

    def _op_restart(self, op):
        self.faults["F-restart"] += 1
        if self.warm:
            self.probe("restart-with-warm-cache")
        keep = bool(op.get("keep"))
        if keep:
            # fork: the original stays alive next to the copy; from now on both must stay correct
            self.shadow = {"sc": self.sc, "standalone": self.standalone, "hist": copy.deepcopy(self.hist),
                           "via_scenario": set(self.via_scenario)}
            self.probe("fork-keeps-original")
        if op["how"] == "derive":
            # the new scenario's map is a network DERIVED from the lanelets of the old one (lanelets only)
            src = self.sc.lanelet_network
            obstacles, self.standalone = copy.deepcopy((self.sc.obstacles, self.standalone))
            for ob in obstacles:
                # lanelet assignments refer to the old map (C11 feeds made-up id sets into update_initial_state)
                for attr in ("initial_center_lanelet_ids", "initial_shape_lanelet_ids"):
                    if getattr(ob, attr, None) is not None:
                        setattr(ob, attr, None)
                pr = getattr(ob, "prediction", None)
                if pr is not None and getattr(pr, "center_lanelet_assignment", None) is not None:
                    pr.center_lanelet_assignment = None
                if pr is not None and getattr(pr, "shape_lanelet_assignment", None) is not None:
                    pr.shape_lanelet_assignment = None
            try:
                new_sc = Scenario(dt=self.sc.dt, scenario_id=copy.deepcopy(self.sc.scenario_id))
                new_sc.add_objects(
                    LaneletNetwork.create_from_lanelet_list(src.lanelets, cleanup_ids=bool(op.get("cleanup"))))
                new_sc.add_objects(obstacles)
            except Exception as e:  # noqa
                raise Violation("C11/derive-raised/restart", f"deriving a network from a network's lanelets raised "
                                                             f"{type(e).__name__}: {e}")
            self.sc = new_sc
            self.via_scenario = {la.lanelet_id for la in new_sc.lanelet_network.lanelets}
            self.probe("fork-by-derived-network")
        elif op["how"] == "pickle":
            self.sc, self.standalone = pickle.loads(pickle.dumps((self.sc, self.standalone)))
        else:
            self.sc, self.standalone = copy.deepcopy((self.sc, self.standalone))
        self.last_mut = self.last_mut.split("+")[0] + "+restart"
        self._after([("all_obstacles", None), ("network", None)] + [("standalone", k) for k in sorted(self.standalone)])
        return "ok"


def _short(x, n=260):
    s = repr(x)
    return s if len(s) <= n else s[:n] + "..."


def _jsonable(x):
    if isinstance(x, tuple):
        return [_jsonable(v) for v in x]
    if isinstance(x, list):
        return [_jsonable(v) for v in x]
    if isinstance(x, dict):
        return {str(k): _jsonable(v) for k, v in x.items()}
    return x


# ------------------------------------------------------------------ clients
def _motion(rng):
    r = rng.random()
    if r < 0.08:
        # a tiny motion: must not be mistaken for "nothing changed"
        return [rng.choice([1e-6, -3e-5, 2e-4]), rng.choice([0.0, 1e-6, -4e-5])], rng.choice([0.0, 0.0, 1e-6, -2e-5])
    if r < 0.15:
        a = 0.0
    elif r < 0.3:
        a = rng.choice([math.pi / 2, -math.pi / 2, math.pi, 0.03, -0.03])
    else:
        a = rng.uniform(-2 * math.pi, 2 * math.pi)
    d = [rng.uniform(-20, 20), rng.uniform(-20, 20)] if rng.chance(0.8) else [0.0, 0.0]
    if a == 0.0 and d == [0.0, 0.0]:
        d = [1.0, 0.0]
    return d, a


def _obstacle_ids(run, kinds=None):
    out = []
    for o in run.sc.obstacles:
        if kinds is None or isinstance(o, kinds):
            out.append(o.obstacle_id)
    return sorted(out)


def _querier(rng, run, cfg):
    kinds = cfg["queries"]
    while True:
        k = rng.pick(kinds)
        ids = _obstacle_ids(run)
        net = run._net_ids()
        if k in ("q_occ", "q_state") and ids:
            yield {"op": k, "id": rng.pick(ids)}
        elif k in ("q_scn_occ", "q_scn_states"):
            yield {"op": k, "t": rng.randint(0, 6)}
        elif k in ("q_poly", "q_dist"):
            if run.standalone and rng.chance(0.3):
                yield {"op": k, "standalone": rng.pick(sorted(run.standalone))}
            elif net:
                yield {"op": k, "id": rng.pick(net)}
            else:
                yield None
        elif k == "q_pos" and net:
            pts = [{"lanelet": rng.pick(net), "seg": rng.randrange(3), "t": rng.uniform(0.1, 0.9),
                    "off": rng.choice([0.0, 0.7, -0.7])} for _ in range(rng.randint(1, 4))]
            pts.append({"far": [rng.uniform(300, 900), rng.uniform(-900, -300)]})
            yield {"op": "q_pos", "pts": pts}
        elif k == "q_shape" and net:
            yield {"op": "q_shape", "lanelet": rng.pick(net), "seg": rng.randrange(3), "t": rng.uniform(0.1, 0.9),
                   "shape": gen.gen_shape(rng, ("rect", "circ", "poly")), "ori": rng.uniform(-3, 3)}
        elif k == "q_light":
            lts = sorted(l.traffic_light_id for l in run.sc.lanelet_network.traffic_lights
                         if l.traffic_light_cycle is not None)
            yield {"op": "q_light", "id": rng.pick(lts)} if lts else None
        elif k == "sweep":
            yield {"op": "sweep"}
        else:
            yield None


def _traj_states(rng, t0, n, cls="ks"):
    x, y, th = rng.uniform(-30, 30), rng.uniform(-30, 30), rng.uniform(-3, 3)
    out = []
    for k in range(n):
        th = math.atan2(math.sin(th + 0.1), math.cos(th + 0.1))
        x += 1.5 * math.cos(th)
        y += 1.5 * math.sin(th)
        out.append({"cls": cls, "t": t0 + k, "pos": [x, y], "ori": th, "vel": rng.uniform(0, 10), "steer": 0.0})
    return out


def _pred_spec(rng, t0, allow_none=True):
    r = rng.random()
    if r < 0.15 and allow_none:
        return None
    n = rng.randint(1, 5)
    if r < 0.3:
        occ = [{"t": t0 + k, "shape": gen._place(gen.gen_shape(rng, ("rect", "poly", "circ")),
                                                 [rng.uniform(-30, 30), rng.uniform(-30, 30)], rng.uniform(-3, 3))}
               for k in range(n)]
        return {"kind": "set", "t0": t0, "occ": occ}
    p = {"kind": "traj", "states": _traj_states(rng, t0, n)}
    if rng.chance(0.3):
        p["shape"] = gen.gen_shape(rng, ("rect", "circ", "poly"))
    return p


def _mutator(rng, run, cfg):
    kinds = cfg["mutators"]
    upd_t = {}
    while True:
        k = rng.pick(kinds)
        ids = _obstacle_ids(run)
        dyn = _obstacle_ids(run, DynamicObstacle)
        net = run._net_ids()
        d, a = _motion(rng)
        if k == "tr_scenario":
            yield {"op": k, "d": d, "a": a}
        elif k == "tr_network":
            yield {"op": k, "d": d, "a": a}
        elif k == "tr_obstacle" and ids:
            yield {"op": k, "id": rng.pick(ids), "d": d, "a": a}
        elif k == "tr_prediction":
            c = [o.obstacle_id for o in run.sc.obstacles if getattr(o, "prediction", None) is not None]
            yield {"op": k, "id": rng.pick(sorted(c)), "d": d, "a": a} if c else None
        elif k == "tr_lanelet" and run.standalone:
            yield {"op": k, "standalone": rng.pick(sorted(run.standalone)), "d": d, "a": a}
        elif k in ("set_prediction", "update_prediction") and dyn:
            oid = rng.pick(dyn)
            t0 = run._obstacle(oid).initial_state.time_step + 1
            spec = _pred_spec(rng, t0, allow_none=(k == "set_prediction"))
            yield {"op": k, "id": oid, "pred": spec}
        elif k in ("set_trajectory", "set_shape"):
            c = [o.obstacle_id for o in run.sc.dynamic_obstacles if isinstance(o.prediction, TrajectoryPrediction)]
            if not c:
                yield None
                continue
            oid = rng.pick(sorted(c))
            if k == "set_shape":
                yield {"op": k, "id": oid, "shape": gen.gen_shape(rng, ("rect", "circ", "poly"))}
            else:
                t0 = run._obstacle(oid).initial_state.time_step + 1
                r = rng.random()
                if r < 0.5:
                    yield {"op": k, "id": oid, "states": _traj_states(rng, t0, rng.randint(1, 5))}
                elif r < 0.75:
                    yield {"op": k, "id": oid, "variant": "shifted",
                           "d": [rng.uniform(-9, 9), rng.uniform(-9, 9)] if rng.chance(0.7) else
                           [rng.choice([1e-6, -2e-5, 3e-4]), rng.choice([0.0, 1e-6])]}
                else:
                    yield {"op": k, "id": oid, "variant": "reassigned", "d": [rng.uniform(-9, 9), rng.uniform(-9, 9)],
                           "a": rng.choice([0.0, 0.7])}
        elif k == "update_initial" and dyn:
            oid = rng.pick(dyn)
            ob = run._obstacle(oid)
            t = ob.initial_state.time_step + 1
            st = {"t": t, "pos": [rng.uniform(-30, 30), rng.uniform(-30, 30)], "ori": rng.uniform(-3, 3),
                  "vel": rng.uniform(0, 10), "acc": 0.0, "yaw": 0.0, "slip": 0.0}
            sig = {"time_step": t, "horn": rng.chance(0.5)} if rng.chance(0.5) else None
            cen = sorted(rng.subset(net, 0.3)) if rng.chance(0.6) else None
            shp = sorted(rng.subset(net, 0.4)) if rng.chance(0.6) else None
            yield {"op": k, "id": oid, "state": st, "signal": sig, "center": cen, "shape": shp,
                   "max_len": rng.pick(cfg["max_lens"])}
        elif k == "set_initial":
            c = _obstacle_ids(run, (DynamicObstacle, StaticObstacle))
            if not c:
                yield None
                continue
            yield {"op": k, "id": rng.pick(c),
                   "state": {"pos": [rng.uniform(-30, 30), rng.uniform(-30, 30)], "ori": rng.uniform(-3, 3),
                             "vel": rng.uniform(0, 10), "acc": 0.0, "yaw": 0.0, "slip": 0.0}}
        elif k == "add_lanelet":
            c = [key for key in sorted(run.pool) if run.enabled({"op": "add_lanelet", "key": key})]
            yield {"op": k, "key": rng.pick(c), "level": rng.pick(["scenario", "network"])} if c else None
        elif k == "add_from_network":
            keys = sorted(run.pool)
            chosen = rng.sample(keys, rng.randint(1, len(keys)))
            op = {"op": k, "keys": chosen}
            yield op if run.enabled(op) else None
        elif k == "add_batch":
            c = [key for key in sorted(run.pool) if run.enabled({"op": "add_lanelet", "key": key})]
            yield {"op": k, "keys": rng.sample(c, rng.randint(2, len(c)))} if len(c) >= 2 else None
        elif k == "replace_lanelet" and net:
            yield {"op": k, "id": rng.pick(net), "dx": rng.choice([-1, 1]) * rng.uniform(25, 70),
                   "dy": rng.choice([-1, 1]) * rng.uniform(25, 70)}
        elif k == "remove_lanelet" and net:
            i = rng.pick(net)
            yield {"op": k, "id": i, "level": "scenario" if i in run.via_scenario else "network",
                   "intruder": rng.choice([None, None, "after", "before", "middle", "middle"])}
        elif k in ("set_cycle", "set_offset", "replace_cycle"):
            lts = sorted(l.traffic_light_id for l in run.sc.lanelet_network.traffic_lights
                         if l.traffic_light_cycle is not None)
            if not lts:
                yield None
                continue
            cyc = [[rng.pick(gen.LIGHT_STATES[:4]), rng.randint(1, 5)] for _ in range(rng.randint(1, 4))]
            if k == "set_cycle":
                lid = rng.pick(lts)
                cur = [[e.state.name, e.duration] for e in
                       run.sc.lanelet_network.find_traffic_light_by_id(lid).traffic_light_cycle.cycle_elements]
                r = rng.random()
                if r < 0.25 and len(cur) > 1:
                    cyc = list(cur)
                    rng.shuffle(cyc)  # the same elements in another order
                elif r < 0.4 and len(cur) > 1:
                    j = rng.randrange(len(cur))
                    cyc = cur[:j] + cur[j + 1:]  # one phase dropped
                elif r < 0.55:
                    cyc = cur + [list(rng.pick(cur))]  # one phase repeated
                elif r < 0.65:
                    cyc = [[n, d + 1] for n, d in cur]  # same states, other durations
                elif r < 0.85:
                    yield {"op": k, "id": lid, "variant": rng.choice(["edit_duration", "drop", "append"]),
                           "j": rng.randrange(8), "delta": rng.randint(1, 4), "same_list": rng.chance(0.5)}
                    continue
                yield {"op": k, "id": lid, "cycle": cyc}
            elif k == "set_offset":
                yield {"op": k, "id": rng.pick(lts), "offset": rng.randint(0, 8)}
            else:
                yield {"op": k, "id": rng.pick(lts), "cycle": cyc, "offset": rng.randint(0, 8)}
        else:
            yield None


def _restarter(rng, run, cfg):
    while True:
        if run.shadow is not None and rng.chance(0.5):
            yield {"op": "swap"}
        else:
            yield {"op": "restart", "how": rng.pick(["pickle", "deepcopy", "derive"]), "keep": rng.chance(0.5),
                   "cleanup": rng.chance(0.5)}


QUERIES = ["q_occ", "q_state", "q_scn_occ", "q_scn_states", "q_poly", "q_dist", "q_pos", "q_shape", "q_light", "sweep"]
MUTATORS = ["tr_scenario", "tr_network", "tr_obstacle", "tr_prediction", "tr_lanelet", "set_prediction",
            "update_prediction", "set_trajectory", "set_shape", "update_initial", "set_initial", "add_lanelet", "add_batch", "add_from_network",
            "remove_lanelet", "replace_lanelet",
            "set_cycle", "set_offset", "replace_cycle"]


class C11(Property):
    id = "C11"
    title = "Derived data never goes stale under mutation"
    tiers = {"quick": {"runs": 1600, "wall": 240, "chunk": 10}, "thorough": {"runs": 60000, "wall": 1700, "chunk": 25}}
    expected_probes = ["restart-with-warm-cache", "history-truncation-hit", "fork-keeps-original", "fork-by-derived-network", "lookup-on-emptied-network",
                       "mutation-not-followed-by-a-query",
                       "continued-on-the-other-copy", "trajectory-replaced-by-shifted-copy",
                       "trajectory-object-transformed-and-reassigned", "cycle-edited-in-place-and-reassigned",
                       "merge-with-id-clash", "two-obstacles-share-one-state-list",
                       "cell:occupancy_at_time<-translate_rotate[scenario]",
                       "cell:occupancy_at_time<-translate_rotate[obstacle]",
                       "cell:occupancy_at_time<-translate_rotate[prediction]",
                       "cell:occupancy_at_time<-prediction=", "cell:occupancy_at_time<-prediction.trajectory=",
                       "cell:occupancy_at_time<-prediction.shape=", "cell:occupancy_at_time<-update_initial_state",
                       "cell:occupancy_at_time<-update_prediction", "cell:occupancy_at_time<-initial_state=",
                       "cell:find_lanelet_by_position<-translate_rotate[network]",
                       "cell:find_lanelet_by_position<-translate_rotate[scenario]",
                       "cell:find_lanelet_by_shape<-translate_rotate[network]",
                       "cell:find_lanelet_by_position<-add_lanelet[network]",
                       "cell:find_lanelet_by_position<-add_lanelet[scenario]",
                       "cell:find_lanelet_by_position<-add_lanelet[batch,rtree=False..True]",
                       "cell:find_lanelet_by_position<-remove_lanelet[network]",
                       "cell:find_lanelet_by_position<-remove_lanelet[scenario]",
                       "cell:find_lanelet_by_position<-replace_lanelet[network,rtree=False+add]",
                       "lanelet-replaced-under-its-id",
                       "cell:lanelet.polygon<-translate_rotate[network]", "cell:lanelet.polygon<-translate_rotate[lanelet]",
                       "cell:lanelet.distance<-translate_rotate[lanelet]",
                       "cell:cycle.get_state_at_time_step<-cycle_elements=",
                       "cell:cycle.get_state_at_time_step<-time_offset=",
                       "cell:light.get_state_at_time_step<-traffic_light_cycle="]
    assumptions = [
        "the oracle is a fresh reconstruction by the library's own public constructors from the mutated object's "
        "primary data; reals are compared within 1e-9 (relative), orientations modulo 2 pi",
        "mutators are applied to the queried object or to one of its containers; mutating a child behind a caching "
        "parent's back (a lanelet of a network, the trajectory of a prediction, an element of a cycle's list) is not "
        "generated",
        "PMState trajectories and EnvironmentObstacles are not part of the universes (they make translate_rotate "
        "raise today, which is C05's business)",
        "lookup query points lie well inside lanelets or far away, never on boundaries",
    ]

    def gen_config(self, rng):
        return {"steps": rng.randint(6, 30),
                "queries": sorted(rng.subset(QUERIES, 0.6, at_least=2)),
                "mutators": sorted(rng.subset(MUTATORS, 0.5, at_least=2)),
                "n_queriers": rng.randint(1, 2), "n_mutators": rng.randint(1, 2),
                "restarts": rng.chance(0.5), "sweep": rng.pick(["always", "half", "never", "sparse", "sparse"]),
                "max_lens": sorted(rng.sample([1, 2, 3, 4, 6000], rng.randint(1, 3)))}

    def gen_universe(self, rng, cfg):
        ids = gen.IdAlloc(rng, 1, 300, zero=0.15)
        net = gen.gen_network(rng, rows=rng.randint(1, 2), cols=rng.randint(1, 3), ids=ids, signs=False,
                              intersections=False, stop_lines=rng.chance(0.5))
        net.pop("_geom", None)
        for lt in net["lights"]:
            if rng.chance(0.2):
                lt["pos"] = None  # a light without a position of its own (writers and renderer support that)
        obstacles = []
        for _ in range(rng.randint(1, 4)):
            role = rng.weighted(["static", "dynamic", "dynamic_nopred", "dynamic_set", "phantom"], [2, 5, 1, 1, 1])
            kinds = ("rect", "circ", "poly", "group") if rng.chance(0.2) else ("rect", "circ", "poly")
            ob = gen.gen_obstacle(rng, ids.take(), net, role=role, interval_steps=0.3, shape_kinds=kinds,
                                  offset_p=0.15)
            if role == "dynamic" and ob.get("pred") and ob["pred"]["kind"] == "traj" and rng.chance(0.15) \
                    and ob["shape"]["t"] != "group":
                # uncertain states: position given as a region, orientation as an interval (the occupancy is then an
                # enclosing rectangle)
                for st in ob["pred"]["states"]:
                    st["pos"] = gen._place({"t": "rect", "l": 1.0, "w": 0.6}, st["pos"], 0.0)
                    if abs(st["ori"]) < 2.9:
                        st["ori"] = {"aiv": [st["ori"] - 0.1, st["ori"] + 0.1]}
                    st["cls"] = "custom"
                    for kx in ("steer", "yaw", "slip", "acc"):
                        st.pop(kx, None)
            obstacles.append(ob)
        trajs = [o for o in obstacles if o["role"] == "dynamic" and o.get("pred") and o["pred"]["kind"] == "traj"]
        if trajs and rng.chance(0.15):
            # a second obstacle whose trajectory is built from the very same list of state objects (legal, if sloppy)
            src = rng.pick(trajs)
            twin = dict(src, id=ids.take(), share_states_with=src["id"], shape=gen.gen_shape(rng, ("rect", "poly")))
            obstacles.append(twin)
        pool_net = gen.gen_network(rng, rows=1, cols=rng.randint(1, 3), ids=ids, signs=False, lights=False,
                                   intersections=False, stop_lines=False, overlap=False, extra_links=False)
        pool = {}
        for j, la in enumerate(pool_net["lanelets"]):
            la = dict(la, pred=[], succ=[])
            for k in ("adjl", "adjl_same", "adjr", "adjr_same"):
                la.pop(k, None)
            pool[f"p{j}"] = la
        st_net = gen.gen_network(rng, rows=1, cols=rng.randint(1, 2), ids=ids, signs=False, lights=False,
                                 intersections=False, overlap=False, extra_links=False)
        standalone = {f"s{j}": la for j, la in enumerate(st_net["lanelets"])}
        return {"scenario": {"network": net, "obstacles": obstacles, "sid": {"country": "DEU"}}, "pool": pool,
                "standalone": standalone}

    def new_run(self, universe, cfg):
        return Run(universe, cfg)

    def make_clients(self, rng, cfg, run):
        out = []
        for j in range(cfg["n_queriers"]):
            out.append(Client(f"querier{j}", 2.0, _querier(rng.sub("q", j), run, cfg)))
        for j in range(cfg["n_mutators"]):
            out.append(Client(f"mutator{j}", 2.0, _mutator(rng.sub("m", j), run, cfg)))
        if cfg["restarts"]:
            out.append(Client("restarter", 0.4, _restarter(rng.sub("r"), run, cfg)))
        return out

    def prune_universe(self, universe, trace):
        sc = universe["scenario"]
        used_pool = {e["op"]["key"] for e in trace if e["op"]["op"] == "add_lanelet"}
        used_st = {e["op"]["standalone"] for e in trace if "standalone" in e["op"]}
        small = dict(universe, pool={k: v for k, v in universe["pool"].items() if k in used_pool},
                     standalone={k: v for k, v in universe["standalone"].items() if k in used_st})
        if small != universe:
            yield small
        for i in range(len(sc["obstacles"])):
            yield dict(universe, scenario=dict(sc, obstacles=sc["obstacles"][:i] + sc["obstacles"][i + 1:]))
        net = sc["network"]
        if net.get("lights"):
            n2 = dict(net, lights=[], lanelets=[dict(la, lights=[], stop=None) for la in net["lanelets"]])
            yield dict(universe, scenario=dict(sc, network=n2))
        if len(net["lanelets"]) > 1:
            for i in range(len(net["lanelets"])):
                gone = net["lanelets"][i]["id"]
                keep = []
                for la in net["lanelets"][:i] + net["lanelets"][i + 1:]:
                    la = dict(la, pred=[x for x in la.get("pred", []) if x != gone],
                              succ=[x for x in la.get("succ", []) if x != gone])
                    if la.get("adjl") == gone:
                        la.pop("adjl"), la.pop("adjl_same", None)
                    if la.get("adjr") == gone:
                        la.pop("adjr"), la.pop("adjr_same", None)
                    keep.append(la)
                yield dict(universe, scenario=dict(sc, network=dict(net, lanelets=keep)))

    def simplify_op(self, op):
        if "a" in op and "d" in op:
            if op["a"] != 0.5 or op["d"] != [1.0, 0.0]:
                yield dict(op, a=0.5, d=[1.0, 0.0])
            if op["d"] != [0.0, 0.0] and op["a"] != 0.0:
                yield dict(op, d=[0.0, 0.0])
        if op["op"] == "restart" and op["how"] != "deepcopy":
            yield dict(op, how="deepcopy")
        if op["op"] == "restart" and op.get("keep"):
            yield dict(op, keep=False)
        if op["op"] == "q_pos" and len(op["pts"]) > 1:
            for i in range(len(op["pts"])):
                yield dict(op, pts=op["pts"][:i] + op["pts"][i + 1:])
        if op["op"] == "add_lanelet" and op["level"] != "network":
            yield dict(op, level="network")

    def describe_sim_time(self, sim_time, steps):
        return {"unit": "logical steps (one public API call each); the property has no clock", "steps": steps}

    def components(self):
        return {"real": ["commonroad Scenario / obstacles / predictions / trajectories / lanelets / LaneletNetwork "
                         "(STRtree) / traffic lights and cycles", "shapely", "pickle / copy.deepcopy"],
                "stub": ["none"]}


PROPERTY = C11()
