"""C09 — object ids in a scenario stay unique and the id pool stays exact.

System under simulation: one Scenario shared by several logical clients (adders, generate-then-add
clients, removers, re-adders, a network replacer, a restarter).  Reference model: an abstract id pool.
"""
import copy
import pickle

from commonroad.scenario.obstacle import EnvironmentObstacle, ObstacleType
from commonroad.geometry.shape import Rectangle
from commonroad.scenario.scenario import Scenario

from crkit import build
from simkit.engine import Client, HarnessError, Property, RunBase, Violation

MAX_ID = 12
OBST_KINDS = ("static", "dynamic", "env", "phantom")
NET_KINDS = ("lanelet", "sign", "light", "intersection")


# ------------------------------------------------------------------ spec templates
def lanelet_spec(i, signs=(), lights=()):
    y = 4.0 * i
    return {"id": i, "left": [[0, y + 1], [5, y + 1], [10, y + 1]], "center": [[0, y], [5, y], [10, y]],
            "right": [[0, y - 1], [5, y - 1], [10, y - 1]], "signs": list(signs), "lights": list(lights)}


def obj_spec(kind, i, extra=None):
    extra = extra or {}
    if kind == "lanelet":
        return lanelet_spec(i, extra.get("signs", ()), extra.get("lights", ()))
    if kind == "sign":
        return {"id": i, "elems": [{"id": "MAX_SPEED", "vals": ["10"]}], "pos": [1.0, 4.0 * i]}
    if kind == "light":
        return {"id": i, "pos": [2.0, 4.0 * i], "cycle": [["RED", 2], ["GREEN", 3]]}
    if kind == "intersection":
        incs = [{"id": j, "in": [1], "straight": [2]} for j in extra["incoming_ids"]]
        return {"id": i, "incomings": incs}
    if kind == "static":
        return {"id": i, "role": "static", "shape": {"t": "rect", "l": 2, "w": 9},  # reaches over the neighbouring lanes
                "init": {"t": 0, "pos": [1.0, 4.0 * i], "ori": 0.0}}
    if kind == "dynamic":
        return {"id": i, "role": "dynamic", "shape": {"t": "rect", "l": 2, "w": 9},
                "init": {"t": 0, "pos": [1.0, 4.0 * i], "ori": 0.0, "vel": 1.0},
                "pred": {"kind": "traj", "states": [{"cls": "ks", "t": 1, "pos": [2.0, 4.0 * i], "ori": 0.0, "vel": 1.0}]}}
    if kind == "env":
        return {"id": i, "role": "env", "shape": {"t": "rect", "l": 3, "w": 3, "c": [20.0, 4.0 * i]}}
    if kind == "phantom":
        return {"id": i, "role": "phantom",
                "pred": {"kind": "set", "t0": 0, "occ": [{"t": 0, "shape": {"t": "circ", "r": 1.0, "c": [3.0, 4.0 * i]}}]}}
    raise HarnessError(kind)


def build_obj(kind, spec):
    return {"lanelet": build.build_lanelet, "sign": build.build_sign, "light": build.build_light,
            "intersection": build.build_intersection}.get(kind, build.build_obstacle)(spec)


def ids_of(kind, spec):
    """[(id, kind, owner)] an object brings into the scenario."""
    out = [(spec["id"], kind, None)]
    if kind == "intersection":
        out += [(inc["id"], "incoming", spec["id"]) for inc in spec["incomings"]]
    return out


def net_ids(net):
    out = []
    for la in net.get("lanelets", []):
        out += ids_of("lanelet", la)
    for s in net.get("signs", []):
        out += ids_of("sign", s)
    for s in net.get("lights", []):
        out += ids_of("light", s)
    for s in net.get("intersections", []):
        out += ids_of("intersection", s)
    return out


# ------------------------------------------------------------------ the abstract id-pool model
class Model:
    def __init__(self):
        self.contained = {}  # id -> (kind, owner)
        self.refs = {}  # lanelet id -> {"signs": set, "lights": set}
        self.returned = set()
        self.removed_once = set()  # (kind, id) removed earlier (probe: re-add after remove)

    def clone(self):
        return copy.deepcopy(self)

    def ids_of_kind(self, *kinds):
        return sorted(i for i, (k, _) in self.contained.items() if k in kinds)

    def net_empty(self):
        return not any(k in NET_KINDS or k == "incoming" for k, _ in self.contained.values())

    def add_ids(self, triples):
        for i, k, owner in triples:
            self.contained[i] = (k, owner)

    def add_lanelet_refs(self, spec):
        self.refs[spec["id"]] = {"signs": set(spec.get("signs", [])), "lights": set(spec.get("lights", []))}

    def remove_id(self, i):
        k, _ = self.contained.pop(i)
        self.removed_once.add((k, i))
        if k == "lanelet":
            self.refs.pop(i, None)
        elif k == "sign":
            existing = {j for j, (kk, _) in self.contained.items() if kk == "sign"}
            for r in self.refs.values():
                r["signs"] &= existing  # the network drops every reference to a sign that is not in it
        elif k == "light":
            existing = {j for j, (kk, _) in self.contained.items() if kk == "light"}
            for r in self.refs.values():
                r["lights"] &= existing
        elif k == "intersection":
            for j in [j for j, (kk, o) in self.contained.items() if kk == "incoming" and o == i]:
                self.contained.pop(j)
                self.removed_once.add(("incoming", j))

    def hanging(self, lanelet_ids):
        """signs / lights referenced by the removed lanelets and by no remaining lanelet."""
        rem = set(lanelet_ids)
        sd, ld, ss, ls = set(), set(), set(), set()
        for lid, r in self.refs.items():
            if lid in rem:
                sd |= r["signs"]
                ld |= r["lights"]
            else:
                ss |= r["signs"]
                ls |= r["lights"]
        signs = [i for i in sorted(sd - ss) if self.contained.get(i, (None,))[0] == "sign"]
        lights = [i for i in sorted(ld - ls) if self.contained.get(i, (None,))[0] == "light"]
        return signs, lights

    def abstract(self):
        return sorted((i, k, o) for i, (k, o) in self.contained.items())


def sut_abstract(sc: Scenario):
    out = []
    for o in sc.static_obstacles:
        out.append((o.obstacle_id, "static", None))
    for o in sc.dynamic_obstacles:
        out.append((o.obstacle_id, "dynamic", None))
    for o in sc.environment_obstacle:
        out.append((o.obstacle_id, "env", None))
    for o in sc.phantom_obstacle:
        out.append((o.obstacle_id, "phantom", None))
    net = sc.lanelet_network
    for la in net.lanelets:
        out.append((la.lanelet_id, "lanelet", None))
    for s in net.traffic_signs:
        out.append((s.traffic_sign_id, "sign", None))
    for s in net.traffic_lights:
        out.append((s.traffic_light_id, "light", None))
    for it in net.intersections:
        out.append((it.intersection_id, "intersection", None))
        for inc in it.incomings:
            out.append((inc.incoming_id, "incoming", it.intersection_id))
    return sorted(out, key=lambda t: (t[0], t[1], t[2] or 0))


def _tag(op):
    return f"{op['op']}[{op.get('kind', '')},{op.get('form', '')}]"


class Run(RunBase):
    def __init__(self, universe, cfg):
        super().__init__(universe, cfg)
        self.sc = Scenario(dt=0.1, scenario_id=build.build_scenario_id())
        self.m = Model()
        self.gen_history = []
        self.pending_gen = set()
        # an independent scenario nobody operates on: state shared by accident between instances (a mutable default
        # argument, a class attribute) would show up in it
        self.idle = Scenario(dt=0.1, scenario_id=build.build_scenario_id())
        self.idle.add_objects(build_obj("lanelet", lanelet_spec(MAX_ID + 50)))

    # ---------------------------------------------------------------- preconditions
    def enabled(self, op):
        m, u = self.m, self.universe
        k = op["op"]
        if k in ("add", "add_list", "add_new", "gen", "restart", "erase_net"):
            if k == "add":
                return op["key"] in u["objects"]
            if k == "add_list":
                return all(x in u["objects"] for x in op["keys"])
            return True
        if k == "add_net":
            return op["key"] in u["nets"] and m.net_empty()
        if k == "replace_net":
            if op["key"] not in u["nets"]:
                return False
            all_ids = [i for i, _, _ in net_ids(u["nets"][op["key"]])]
            new = set(all_ids)
            return not (new & set(m.ids_of_kind(*OBST_KINDS)))
        if k in ("peek", "assign"):
            return True
        if k == "remove_intruder":
            ids = op["ids"]
            o = u["objects"].get(op["key"])
            if o is None or o["kind"] != op["kind"] or len(set(ids)) != len(ids) or not ids:
                return False
            if any(t[0] in m.contained for t in ids_of(o["kind"], o["spec"])):
                return False
            return all(m.contained.get(i, (None,))[0] == op["kind"] for i in ids)
        if k == "remove":
            ids = op["ids"]
            if len(set(ids)) != len(ids) or not ids:
                return False
            if op["kind"] == "obstacle":
                # contained obstacle, or an id no obstacle uses (documented no-op with a warning)
                return True
            return all(m.contained.get(i, (None,))[0] == op["kind"] for i in ids)
        return False

    # ---------------------------------------------------------------- helpers
    def _find(self, kind, i):
        net = self.sc.lanelet_network
        if kind == "lanelet":
            return net.find_lanelet_by_id(i)
        if kind == "sign":
            return net.find_traffic_sign_by_id(i)
        if kind == "light":
            return net.find_traffic_light_by_id(i)
        if kind == "intersection":
            return net.find_intersection_by_id(i)
        raise HarnessError(kind)

    def _check_state(self, op, what):
        got = sut_abstract(self.sc)
        ids = [t[0] for t in got]
        if len(ids) != len(set(ids)):
            dup = sorted({i for i in ids if ids.count(i) > 1})
            raise Violation(f"C09/duplicate-id/{_tag(op)}", f"ids {dup} are used by more than one contained object "
                                                             f"after {op}", got)
        exp = self.m.abstract()
        if [list(t) for t in got] != [list(t) for t in sorted(exp, key=lambda t: (t[0], t[1], t[2] or 0))]:
            raise Violation(f"C09/{what}/{_tag(op)}",
                            f"contained objects differ from the id-pool model after {op}: scenario has {got}, "
                            f"model expects {exp}", {"sut": got, "model": exp})

    def _check_pool(self, op):
        """Black-box exactness of the id pool: on a deep copy, a throw-away object with id i can be added iff
        no contained object uses i."""
        probe_ids = set(range(0, MAX_ID + 1)) | set(self.m.returned) | set(self.m.contained)
        twin = copy.deepcopy(self.sc)
        for i in sorted(probe_ids):
            try:
                twin.add_objects(EnvironmentObstacle(i, ObstacleType.BUILDING, Rectangle(1.0, 1.0)))
                accepted = True
            except ValueError:
                accepted = False
            used = i in self.m.contained
            if used and accepted:
                raise Violation(f"C09/double-free/{_tag(op)}",
                                f"id {i} is used by a contained {self.m.contained[i][0]} but a second object with "
                                f"that id was accepted after {op}", {"id": i, "id_set": sorted(self.sc._id_set)})
            if not used and not accepted:
                raise Violation(f"C09/leak/{_tag(op)}",
                                f"id {i} is used by no contained object but adding an object with it raises "
                                f"'ID {i} is already used' after {op}", {"id": i, "id_set": sorted(self.sc._id_set)})

    def _expect_add(self, op, triples, do_add):
        """Run one add; `triples` are the ids it brings.  Returns 'ok' / 'rejected'."""
        ids = [t[0] for t in triples]
        collide = sorted(set(ids) & set(self.m.contained))
        internal = sorted({i for i in ids if ids.count(i) > 1})
        if internal and not collide:
            # the object itself brings one id twice (e.g. an incoming element with the id of its intersection):
            # accepting it would put two contained objects on one id
            self.probe("object-with-internally-repeated-id")
            collide = internal
        try:
            do_add()
            exc = None
        except Exception as e:  # noqa
            exc = e
        if collide:
            self.probe("rejected-add")
            self.faults["F-reject"] += 1
            if exc is None:
                raise Violation(f"C09/duplicate-accepted/{_tag(op)}",
                                f"adding an object with ids {ids} succeeded although {collide} are in use")
            if not isinstance(exc, ValueError):
                raise Violation(f"C09/wrong-exception/{_tag(op)}",
                                f"adding an object with used ids {collide} raised {type(exc).__name__}: {exc}")
            return "rejected"
        if exc is not None:
            raise Violation(f"C09/add-failed/{_tag(op)}",
                            f"adding an object with free ids {ids} raised {type(exc).__name__}: {exc}",
                            {"id_set": sorted(self.sc._id_set)})
        return "ok"

    def _model_add(self, kind, spec, lanelet_ids=None):
        self.m.add_ids(ids_of(kind, spec))
        for t in ids_of(kind, spec):
            if (t[1], t[0]) in self.m.removed_once:
                self.probe("readd-after-remove")
        if kind == "lanelet":
            self.m.add_lanelet_refs(spec)
        if kind in ("sign", "light") and lanelet_ids:
            for lid in lanelet_ids:
                if self.m.contained.get(lid, (None,))[0] == "lanelet":
                    self.m.refs[lid]["signs" if kind == "sign" else "lights"].add(spec["id"])

    # ---------------------------------------------------------------- ops
    def apply(self, op):
        k = op["op"]
        out = getattr(self, "_op_" + k)(op)
        self._check_pool(op)
        self.note_state(self.m.abstract())
        return out

    def _single_add(self, op, kind, spec, lanelet_ids):
        obj = build_obj(kind, spec)
        if lanelet_ids is not None and kind in ("sign", "light"):
            arg = list(lanelet_ids) if len(lanelet_ids) % 2 else set(lanelet_ids)  # both forms are accepted
            res = self._expect_add(op, ids_of(kind, spec), lambda: self.sc.add_objects(obj, arg))
        else:
            res = self._expect_add(op, ids_of(kind, spec), lambda: self.sc.add_objects(obj))
        if res == "ok":
            self._model_add(kind, spec, lanelet_ids)
        return res

    def _op_add(self, op):
        o = self.universe["objects"][op["key"]]
        op.setdefault("kind", o["kind"])
        res = self._single_add(op, o["kind"], o["spec"], op.get("lanelet_ids"))
        self._check_state(op, "state-after-add" if res == "ok" else "rejected-add-changed-scenario")
        return res

    def _op_add_new(self, op):
        extra = {"incoming_ids": op.get("incoming_ids", [])}
        spec = obj_spec(op["kind"], op["id"], extra)
        self.pending_gen.discard(op["id"])
        res = self._single_add(op, op["kind"], spec, None)
        self._check_state(op, "state-after-add" if res == "ok" else "rejected-add-changed-scenario")
        return res

    def _op_add_list(self, op):
        op.setdefault("form", "list")
        objs = [self.universe["objects"][x] for x in op["keys"]]
        built = [build_obj(o["kind"], o["spec"]) for o in objs]
        # model: sequential adds, the batch stops at the first element that must be refused
        accepted, collided = [], None
        cur = set(self.m.contained)
        for o in objs:
            ids = [t[0] for t in ids_of(o["kind"], o["spec"])]
            if set(ids) & cur or len(set(ids)) != len(ids):
                collided = o
                break
            cur |= set(ids)
            accepted.append(o)
        try:
            self.sc.add_objects(built)
            exc = None
        except Exception as e:  # noqa
            exc = e
        if collided is not None:
            self.probe("midbatch-rejection" if accepted else "rejected-add")
            self.faults["F-midbatch" if accepted else "F-reject"] += 1
            if exc is None:
                raise Violation(f"C09/duplicate-accepted/{_tag(op)}",
                                f"list add {op['keys']} succeeded although an element's id was in use")
            if not isinstance(exc, ValueError):
                raise Violation(f"C09/wrong-exception/{_tag(op)}", f"list add raised {type(exc).__name__}: {exc}")
        elif exc is not None:
            raise Violation(f"C09/add-failed/{_tag(op)}", f"list add with free ids raised {type(exc).__name__}: {exc}")
        if collided is not None and accepted:
            # a refused batch may have applied the elements before the refused one (sequential adds) or nothing at
            # all (an all-or-nothing implementation): both leave every accepted object intact and the pool exact
            if [list(t) for t in sut_abstract(self.sc)] == \
                    [list(t) for t in sorted(self.m.abstract(), key=lambda t: (t[0], t[1], t[2] or 0))]:
                self.probe("refused-batch-applied-nothing")
                return "rejected"
        for o in accepted:
            self._model_add(o["kind"], o["spec"])
        self._check_state(op, "state-after-list-add")
        return "rejected" if collided is not None else "ok"

    def _op_add_net(self, op):
        op.setdefault("kind", "network")
        spec = self.universe["nets"][op["key"]]
        net = build.build_network(spec)
        res = self._expect_add(op, net_ids(spec), lambda: self.sc.add_objects(net))
        if res == "ok":
            self._model_add_net(spec)
        self._check_state(op, "state-after-add" if res == "ok" else "rejected-add-changed-scenario")
        return res

    def _model_add_net(self, spec):
        for kind, key in (("lanelet", "lanelets"), ("sign", "signs"), ("light", "lights"),
                          ("intersection", "intersections")):
            for s in spec.get(key, []):
                self._model_add(kind, s)

    def _op_replace_net(self, op):
        op.setdefault("kind", "network")
        spec = self.universe["nets"][op["key"]]
        net = build.build_network(spec)
        old = set(self.m.ids_of_kind("lanelet", "sign", "light", "intersection", "incoming"))
        new = {t[0] for t in net_ids(spec)}
        if old & new:
            self.probe("replace-overlapping-ids")
        all_ids = [t[0] for t in net_ids(spec)]
        if len(set(all_ids)) != len(all_ids):
            # the new network repeats an id internally: it must not end up in the scenario.  The old network may be
            # gone already (erase, then refused add) or still there (all-or-nothing): both are accepted.
            self.probe("replace-with-internally-repeated-id")
            self.faults["F-reject"] += 1
            try:
                self.sc.replace_lanelet_network(net)
                exc = None
            except Exception as e:  # noqa
                exc = e
            if exc is None:
                raise Violation(f"C09/duplicate-accepted/{_tag(op)}",
                                f"replace_lanelet_network accepted a network in which ids "
                                f"{sorted({i for i in all_ids if all_ids.count(i) > 1})} occur twice")
            if not isinstance(exc, ValueError):
                raise Violation(f"C09/wrong-exception/{_tag(op)}",
                                f"replace_lanelet_network with a network repeating an id raised "
                                f"{type(exc).__name__}: {exc}")
            got = [list(t) for t in sut_abstract(self.sc)]
            pre = [list(t) for t in sorted(self.m.abstract(), key=lambda t: (t[0], t[1], t[2] or 0))]
            if got != pre:
                for i in self.m.ids_of_kind("lanelet", "sign", "light", "intersection"):
                    if i in self.m.contained:
                        self.m.remove_id(i)
            self._check_state(op, "state-after-refused-replace")
            return "rejected"
        try:
            self.sc.replace_lanelet_network(net)
        except Exception as e:  # noqa
            raise Violation(f"C09/replace-failed/{_tag(op)}",
                            f"replace_lanelet_network with ids {sorted(new)} (old network ids {sorted(old)}, no "
                            f"obstacle uses any of them) raised {type(e).__name__}: {e}",
                            {"id_set": sorted(self.sc._id_set)})
        for i in self.m.ids_of_kind("lanelet", "sign", "light", "intersection"):
            if i in self.m.contained:
                self.m.remove_id(i)
        self._model_add_net(spec)
        self._check_state(op, "state-after-replace")
        return "ok"

    def _op_erase_net(self, op):
        op.setdefault("kind", "network")
        old = set(self.m.ids_of_kind("lanelet", "sign", "light", "intersection", "incoming"))
        try:
            self.sc.erase_lanelet_network()
        except Exception as e:  # noqa
            raise Violation(f"C09/erase-failed/{_tag(op)}",
                            f"erase_lanelet_network (network ids {sorted(old)}) raised {type(e).__name__}: {e}",
                            {"id_set": sorted(self.sc._id_set)})
        for i in self.m.ids_of_kind("lanelet", "sign", "light", "intersection"):
            if i in self.m.contained:
                self.m.remove_id(i)
        self.probe("erase-network")
        self._check_state(op, "state-after-erase")
        return "ok"

    def _op_gen(self, op):
        g = self.sc.generate_object_id()
        if g in self.m.contained:
            raise Violation("C09/generated-id-in-use/gen[,]",
                            f"generate_object_id returned {g}, which a contained {self.m.contained[g][0]} uses")
        if g in self.m.returned:
            raise Violation("C09/generated-id-repeated/gen[,]",
                            f"generate_object_id returned {g} a second time (history {self.gen_history})")
        if self.pending_gen:
            self.probe("gen-between-gen-and-add")
        self.pending_gen.add(g)
        self.m.returned.add(g)
        self.gen_history.append(g)
        self._check_state(op, "generate-changed-scenario")
        return g

    def _op_remove(self, op):
        kind, ids, form = op["kind"], op["ids"], op.get("form", "single")
        sc = self.sc
        pre = self.m.clone()
        if kind == "obstacle":
            objs = []
            for i in ids:
                if self.m.contained.get(i, (None,))[0] in OBST_KINDS:
                    objs.append(sc.obstacle_by_id(i))
                else:
                    objs.append(EnvironmentObstacle(i, ObstacleType.BUILDING, Rectangle(1.0, 1.0)))
                    self.probe("remove-non-contained-obstacle")
            call = (lambda: sc.remove_obstacle(objs)) if form == "list" else (lambda: sc.remove_obstacle(objs[0]))
            for i in ids:
                if self.m.contained.get(i, (None,))[0] in OBST_KINDS:
                    self.m.remove_id(i)
        else:
            objs = [self._find(kind, i) for i in ids]
            if any(o is None for o in objs):
                raise HarnessError(f"model says {kind} {ids} contained but the scenario cannot find it")
            if op.get("as_copy"):
                objs = [copy.deepcopy(o) for o in objs]  # equal objects, not the contained ones
                self.probe("removed-by-an-equal-copy")
            arg = objs if form == "list" else objs[0]
            if kind == "lanelet":
                ref = bool(op.get("ref", True))
                call = lambda: sc.remove_lanelet(arg, referenced_elements=ref)  # noqa
                if ref:
                    for i in ids:
                        r = self.m.refs[i]
                        if any(self.m.contained.get(x, ("sign",))[0] not in ("sign",) for x in r["signs"]) or \
                                any(self.m.contained.get(x, ("light",))[0] not in ("light",) for x in r["lights"]):
                            self.probe("lanelet-with-reference-to-foreign-id-removed")
                    signs, lights = self.m.hanging(ids)
                    if signs or lights:
                        self.probe("lanelet-removal-takes-sign-or-light")
                    shared = any(self.m.refs[i]["signs"] or self.m.refs[i]["lights"] for i in ids)
                    if shared and not (signs or lights):
                        self.probe("lanelet-removal-leaves-shared-sign")
                    for i in signs + lights:
                        self.m.remove_id(i)
                for i in ids:
                    self.m.remove_id(i)
            else:
                fn = {"sign": sc.remove_traffic_sign, "light": sc.remove_traffic_light,
                      "intersection": sc.remove_intersection}[kind]
                call = lambda: fn(arg)  # noqa
                for i in ids:
                    self.m.remove_id(i)
        self.probe(f"remove-{kind}-{form}")
        try:
            call()
        except Exception as e:  # noqa
            # a removal that raises is not by itself a C09 violation; the state must be the pre- or the post-state
            got = [list(t) for t in sut_abstract(sc)]
            post = [list(t) for t in sorted(self.m.abstract(), key=lambda t: (t[0], t[1], t[2] or 0))]
            prev = [list(t) for t in sorted(pre.abstract(), key=lambda t: (t[0], t[1], t[2] or 0))]
            if got == prev:
                self.m = pre
                return {"raised": type(e).__name__}
            if form == "list" and kind == "obstacle" and got != post:
                # a list removal is a sequence of single removals: it may stop after a prefix of the list
                part = pre.clone()
                for i in ids:
                    if part.contained.get(i, (None,))[0] in OBST_KINDS:
                        part.remove_id(i)
                    if got == [list(t) for t in sorted(part.abstract(), key=lambda t: (t[0], t[1], t[2] or 0))]:
                        self.m = part
                        self.probe("list-removal-stopped-after-a-prefix")
                        self._check_state(op, "state-after-partial-remove")
                        return {"raised": type(e).__name__}
            if got != post:
                raise Violation(f"C09/torn-removal/{_tag(op)}",
                                f"{op} raised {type(e).__name__}: {e} and left the scenario in neither the previous "
                                f"nor the expected state", {"sut": got, "pre": prev, "post": post})
            return {"raised": type(e).__name__}
        self._check_state(op, "state-after-remove")
        return "ok"

    def _op_remove_intruder(self, op):
        """List-form removal whose list contains an object that is NOT in the scenario: the call may fail half-way.
        Whatever it removed, the ids of the removed objects are free again and nothing else changed."""
        kind, ids = op["kind"], op["ids"]
        sc = self.sc
        objs = [self._find(kind, i) for i in ids]
        if any(o is None for o in objs):
            raise HarnessError(f"model says {kind} {ids} contained but the scenario cannot find it")
        objs.insert(op["pos"] % (len(objs) + 1), build_obj(kind, self.universe["objects"][op["key"]]["spec"]))
        self.faults["F-midbatch"] += 1
        fn = {"lanelet": lambda x: sc.remove_lanelet(x, referenced_elements=False), "sign": sc.remove_traffic_sign,
              "light": sc.remove_traffic_light, "intersection": sc.remove_intersection}[kind]
        try:
            fn(objs)
            raised = None
        except Exception as e:  # noqa
            raised = type(e).__name__
        gone = [i for i in ids if self._find(kind, i) is None]
        for i in gone:
            self.m.remove_id(i)
        # a refused sign / light removal still runs the network's reference clean-up (references of lanelets to ids
        # that are not signs / lights of the network are dropped); which references lanelets hold is C10's business -
        # the model only needs them to predict which signs / lights leave together with a lanelet, so it re-reads them
        for la in sc.lanelet_network.lanelets:
            if la.lanelet_id in self.m.refs:
                self.m.refs[la.lanelet_id] = {"signs": set(la.traffic_signs), "lights": set(la.traffic_lights)}
        self.probe("list-removal-interrupted" if raised and gone else "list-removal-with-foreign-object")
        self._check_state(op, "state-after-interrupted-remove")
        return {"raised": raised, "gone": gone}

    def _op_assign(self, op):
        """A by-stander: the obstacles are assigned to the lanelets (registries and assignment tables are filled).
        Which ids are in use is not touched by that - and later removals have to cope with assigned obstacles."""
        try:
            self.sc.assign_obstacles_to_lanelets()
            self.probe("obstacles-assigned-to-lanelets")
        except Exception as e:  # noqa   (the assignment itself is C07's business)
            self.probe("assign-raised:" + type(e).__name__)
        self._check_state(op, "state-after-assign")
        return "ok"

    def _op_peek(self, op):
        """Ordinary caller code: ask for the lists of contained objects and edit the lists it was handed (they are the
        caller's lists).  The scenario's own bookkeeping must not care."""
        sc, net = self.sc, self.sc.lanelet_network
        for lst in (net.lanelets, net.traffic_signs, net.traffic_lights, net.intersections, sc.obstacles,
                    sc.static_obstacles, sc.dynamic_obstacles):
            if isinstance(lst, list):
                if lst:
                    lst.pop(op["k"] % len(lst))
                lst.reverse()
        self.probe("caller-edits-returned-lists")
        self._check_state(op, "state-after-peek")
        return "ok"

    def _op_restart(self, op):
        self.faults["F-restart"] += 1
        self.probe("restart-" + op["how"])
        if op["how"] == "pickle":
            self.sc = pickle.loads(pickle.dumps(self.sc))
        elif op["how"] == "deepcopy":
            self.sc = copy.deepcopy(self.sc)
        else:
            # write -> read: the scenario the reader builds must have an exact id pool as well.  Whether every
            # scenario can be serialised is C01/C02's business: a failing round trip is skipped.
            import os
            import tempfile

            from commonroad.common.file_reader import CommonRoadFileReader
            from commonroad.common.file_writer import CommonRoadFileWriter
            from commonroad.common.util import FileFormat
            from commonroad.common.writer.file_writer_interface import OverwriteExistingFile
            from commonroad.planning.planning_problem import PlanningProblemSet
            from commonroad.scenario.scenario import Tag

            fmt = FileFormat.XML if op["how"] == "xml" else FileFormat.PROTOBUF
            d = tempfile.mkdtemp(prefix="c09-", dir="/dev/shm" if os.path.isdir("/dev/shm") else None)
            try:
                path = os.path.join(d, "rt" + fmt.value)
                CommonRoadFileWriter(self.sc, PlanningProblemSet(), author="sim", affiliation="verif",
                                     source="generated", tags={Tag.URBAN}, file_format=fmt).write_to_file(
                    path, OverwriteExistingFile.ALWAYS)
                sc2, _ = CommonRoadFileReader(path, fmt).open()
                if [list(t) for t in sut_abstract(sc2)] == [list(t) for t in sut_abstract(self.sc)]:
                    self.sc = sc2
                    self.m.returned = set()  # a new Scenario object: its generator starts afresh
                    self.gen_history = []
                    self.pending_gen = set()
                    self.probe("restart-file")
                else:
                    self.probe("restart-file-skipped-inventory-differs")
            except Violation:
                raise
            except Exception:  # noqa
                self.probe("restart-file-skipped-roundtrip-raised")
            finally:
                import shutil

                shutil.rmtree(d, ignore_errors=True)
        self._check_state(op, "state-after-restart")
        return "ok"

    def finish(self):
        got = sut_abstract(self.idle)
        if [list(t) for t in got] != [[MAX_ID + 50, "lanelet", None]]:
            raise Violation("C09/independent-scenario-affected/finish",
                            f"a second, independent scenario that was never operated on now contains {got}")
        try:
            copy.deepcopy(self.idle).add_objects(EnvironmentObstacle(1, ObstacleType.BUILDING, Rectangle(1.0, 1.0)))
        except ValueError:
            raise Violation("C09/independent-scenario-affected/finish",
                            "id 1 is reserved in a second, independent scenario that was never operated on")
        if len(self.gen_history) != len(set(self.gen_history)):
            raise Violation("C09/generated-id-repeated/history", f"generated ids repeat: {self.gen_history}")


# ------------------------------------------------------------------ clients
def _adder(rng, run):
    u = run.universe
    keys = sorted(u["objects"])
    while True:
        r = rng.random()
        if r < 0.6:
            key = rng.pick(keys)
            op = {"op": "add", "key": key}
            if u["objects"][key]["kind"] in ("sign", "light") and rng.chance(0.6):
                lan = run.m.ids_of_kind("lanelet")
                cand = lan + [rng.randint(1, MAX_ID)]
                op["lanelet_ids"] = sorted(set(rng.subset(cand, 0.5, at_least=1)))
            yield op
        elif r < 0.85:
            n = rng.randint(2, 4)
            yield {"op": "add_list", "keys": [rng.pick(keys) for _ in range(n)]}
        else:
            nets = sorted(u["nets"])
            if nets and run.m.net_empty():
                yield {"op": "add_net", "key": rng.pick(nets)}
            else:
                yield {"op": "add", "key": rng.pick(keys)}


def _gen_adder(rng, run):
    kinds = ["lanelet", "sign", "light", "intersection", "static", "dynamic", "env", "phantom"]
    while True:
        g = yield {"op": "gen"}
        kind = rng.pick(kinds)
        op = {"op": "add_new", "kind": kind, "id": g}
        if kind == "intersection":
            g2 = yield {"op": "gen"}
            op["incoming_ids"] = [g2]
        if rng.chance(0.15):
            continue  # generated but never used: the id must still never come back
        yield op


def _remover(rng, run):
    while True:
        m = run.m
        choices = []
        for kind, mk in (("lanelet", ("lanelet",)), ("sign", ("sign",)), ("light", ("light",)),
                         ("intersection", ("intersection",)), ("obstacle", OBST_KINDS)):
            ids = m.ids_of_kind(*mk)
            if ids:
                choices.append((kind, ids))
        if not choices:
            if rng.chance(0.3):
                yield {"op": "remove", "kind": "obstacle", "ids": [rng.randint(1, MAX_ID)], "form": "single"}
            else:
                yield None
            continue
        kind, ids = rng.pick(choices)
        form = "list" if rng.chance(0.5) else "single"
        n = 1 if form == "single" else rng.randint(1, min(3, len(ids)))
        chosen = rng.sample(ids, n)
        if kind == "obstacle" and rng.chance(0.15):
            free = [i for i in range(1, MAX_ID + 1) if m.contained.get(i, (None,))[0] not in OBST_KINDS
                    and i not in chosen]
            if free:
                chosen[rng.randrange(len(chosen))] = rng.pick(free)
        op = {"op": "remove", "kind": kind, "ids": chosen, "form": form, "as_copy": rng.chance(0.2)}
        if kind == "lanelet":
            op["ref"] = rng.chance(0.7)
        r = rng.random()
        if r < 0.06:
            yield {"op": "peek", "k": rng.randrange(7)}
            continue
        if r > 0.9:
            yield {"op": "assign"}
            continue
        if r < 0.2 and kind != "obstacle":
            cands = [k for k, o in sorted(run.universe["objects"].items()) if o["kind"] == kind and
                     not any(t[0] in m.contained for t in ids_of(kind, o["spec"]))]
            if cands:
                op = {"op": "remove_intruder", "kind": kind, "ids": chosen, "key": rng.pick(cands),
                      "pos": rng.randrange(4)}
        yield op


def _readder(rng, run):
    u = run.universe
    while True:
        removed = sorted(run.m.removed_once)
        cands = [k for k, o in sorted(u["objects"].items())
                 if (o["kind"], o["spec"]["id"]) in run.m.removed_once and o["spec"]["id"] not in run.m.contained]
        if cands:
            yield {"op": "add", "key": rng.pick(cands)}
        elif removed:
            kind, i = rng.pick(removed)
            if kind == "incoming":
                kind = "env"
            op = {"op": "add_new", "kind": kind, "id": i}
            if kind == "intersection":
                op["incoming_ids"] = [rng.randint(1, MAX_ID + 6)]
                if op["incoming_ids"][0] == i:
                    op["incoming_ids"] = [i + 1]
            yield op
        else:
            yield None


def _replacer(rng, run):
    u = run.universe
    while True:
        nets = [k for k in sorted(u["nets"]) if run.enabled({"op": "replace_net", "key": k})]
        if rng.chance(0.25) and not run.m.net_empty():
            yield {"op": "erase_net"}
        elif nets:
            yield {"op": "replace_net", "key": rng.pick(nets)}
        else:
            yield None


def _restarter(rng, run):
    while True:
        yield {"op": "restart", "how": rng.pick(["pickle", "deepcopy", "pickle", "deepcopy", "xml", "pb"])}


CLIENTS = {"adder": (_adder, 3.0), "gen_adder": (_gen_adder, 2.0), "remover": (_remover, 3.0),
           "readder": (_readder, 2.0), "replacer": (_replacer, 0.6), "restarter": (_restarter, 0.4)}


class C09(Property):
    id = "C09"
    title = "Object ids in a scenario stay unique and the id pool stays exact"
    tiers = {"quick": {"runs": 8000, "wall": 150, "chunk": 50}, "thorough": {"runs": 400000, "wall": 1500, "chunk": 100}}
    expected_probes = ["rejected-add", "midbatch-rejection", "readd-after-remove", "remove-lanelet-list",
                       "remove-sign-list", "remove-light-list", "remove-intersection-list", "remove-obstacle-list",
                       "remove-intersection-single", "lanelet-removal-takes-sign-or-light",
                       "lanelet-removal-leaves-shared-sign", "replace-overlapping-ids", "restart-pickle",
                       "restart-deepcopy", "remove-non-contained-obstacle", "gen-between-gen-and-add", "erase-network",
                       "restart-file", "object-with-internally-repeated-id", "replace-with-internally-repeated-id", "lanelet-with-reference-to-foreign-id-removed",
                       "list-removal-interrupted", "caller-edits-returned-lists",
                       "obstacles-assigned-to-lanelets", "removed-by-an-equal-copy"]
    assumptions = [
        "interleaving granularity is one public call (the library has no threads)",
        "list-form adds are sequential adds: the accepted prefix before a refused element stays (documented relaxation)",
        "single removals of network elements that are not contained and add_objects(LaneletNetwork) onto a non-empty "
        "network are not generated (undocumented misuse); a LIST removal may contain one object that is not contained "
        "(the call may fail half-way): whatever is gone afterwards must have its ids freed, nothing else may change",
        "lists handed out by the getters (lanelets, traffic_signs, ..., obstacles) are the caller's: editing them is "
        "not a way of changing the scenario",
        "objects are rebuilt from their JSON spec for every add",
    ]

    def gen_config(self, rng):
        names = sorted(CLIENTS)
        enabled = rng.subset(names, 0.75, at_least=2)
        if "adder" not in enabled and "gen_adder" not in enabled:
            enabled.append("adder")
        n_extra = rng.randint(0, 2)  # second instances of a client kind -> real interleavings of multi-step intents
        extra = [rng.pick(["gen_adder", "adder", "remover"]) for _ in range(n_extra)]
        return {"steps": rng.randint(8, 40), "clients": sorted(enabled) + extra}

    def gen_universe(self, rng, cfg):
        objects = {}
        n = rng.randint(10, 22)
        kinds = ["lanelet", "sign", "light", "intersection", "static", "dynamic", "env", "phantom"]
        weights = [4, 2, 2, 3, 2, 2, 1, 1]
        for j in range(n):
            kind = rng.weighted(kinds, weights)
            i = 0 if rng.chance(0.04) else rng.randint(1, MAX_ID)  # 0 is the smallest legal id
            extra = {}
            if kind == "lanelet" and rng.chance(0.25):
                # references to ids that need not be signs / lights at all (legal: a lanelet only stores ids) -
                # they may coincide with the id of some other object
                extra["signs"] = sorted(rng.sample(range(1, MAX_ID + 1), rng.randint(1, 2)))
                extra["lights"] = sorted(rng.sample(range(1, MAX_ID + 1), rng.randint(0, 1)))
                extra["signs"] = [x for x in extra["signs"] if x != i]
                extra["lights"] = [x for x in extra["lights"] if x != i]
            if kind == "intersection":
                pool = [x for x in range(1, MAX_ID + 1) if x != i]
                extra["incoming_ids"] = sorted(rng.sample(pool, rng.randint(1, 2)))
                r = rng.random()
                if r < 0.08:
                    extra["incoming_ids"] = [extra["incoming_ids"][0], extra["incoming_ids"][0]]  # same id twice
                elif r < 0.16:
                    extra["incoming_ids"][0] = i  # an incoming element with the id of its intersection
            objects[f"o{j}"] = {"kind": kind, "spec": obj_spec(kind, i, extra)}
        nets = {}
        for j in range(rng.randint(1, 3)):
            pool = list(range(1, MAX_ID + 1))
            rng.shuffle(pool)
            nl, ns, nli, ni = rng.randint(1, 3), rng.randint(0, 2), rng.randint(0, 1), rng.randint(0, 1)
            lan_ids = [pool.pop() for _ in range(nl)]
            sign_ids = [pool.pop() for _ in range(ns)]
            light_ids = [pool.pop() for _ in range(nli)]
            net = {"lanelets": [], "signs": [obj_spec("sign", i) for i in sign_ids],
                   "lights": [obj_spec("light", i) for i in light_ids], "intersections": []}
            for lid in lan_ids:
                net["lanelets"].append(lanelet_spec(lid, rng.subset(sign_ids, 0.5), rng.subset(light_ids, 0.5)))
            if sign_ids and rng.chance(0.08):
                net["signs"][0] = obj_spec("sign", lan_ids[0])  # a sign carrying the id of a lanelet of the same network
                for la in net["lanelets"]:
                    la["signs"] = [x for x in la["signs"] if x != sign_ids[0]]
            for _ in range(ni):
                iid = pool.pop()
                incs = sorted(pool.pop() for _ in range(rng.randint(1, 2)))
                if rng.chance(0.1):
                    incs[0] = lan_ids[0]  # an incoming element sharing its id with a lanelet of the same network
                net["intersections"].append(obj_spec("intersection", iid, {"incoming_ids": incs}))
            nets[f"n{j}"] = net
        return {"objects": objects, "nets": nets}

    def new_run(self, universe, cfg):
        return Run(universe, cfg)

    def make_clients(self, rng, cfg, run):
        out = []
        for j, name in enumerate(cfg["clients"]):
            fn, w = CLIENTS[name]
            out.append(Client(f"{name}#{j}", w, fn(rng.sub(name, j), run)))
        return out

    def prune_universe(self, universe, trace):
        used = set()
        used_nets = set()
        for e in trace:
            op = e["op"]
            if op["op"] == "add":
                used.add(op["key"])
            elif op["op"] == "add_list":
                used.update(op["keys"])
            elif op["op"] in ("add_net", "replace_net"):
                used_nets.add(op["key"])
        small = {"objects": {k: v for k, v in universe["objects"].items() if k in used},
                 "nets": {k: v for k, v in universe["nets"].items() if k in used_nets}}
        if small != universe:
            yield small

    def simplify_op(self, op):
        if op["op"] == "add_list" and len(op["keys"]) > 1:
            for i in range(len(op["keys"])):
                yield dict(op, keys=op["keys"][:i] + op["keys"][i + 1:])
        if op["op"] == "remove" and len(op["ids"]) > 1:
            for i in range(len(op["ids"])):
                yield dict(op, ids=op["ids"][:i] + op["ids"][i + 1:])
        if op["op"] == "add" and "lanelet_ids" in op:
            o = dict(op)
            del o["lanelet_ids"]
            yield o
        if op["op"] == "restart" and op["how"] != "deepcopy":
            yield dict(op, how="deepcopy")

    def describe_sim_time(self, sim_time, steps):
        return {"unit": "logical steps (one public API call each); the property has no clock", "steps": steps}

    def components(self):
        return {"real": ["commonroad.scenario.scenario.Scenario (add/remove/replace/generate)",
                         "commonroad.scenario.lanelet.LaneletNetwork", "copy.deepcopy / pickle of the scenario"],
                "stub": ["none (no clock, file or network involved in this property)"]}


PROPERTY = C09()
