"""Deterministic simulation engine: seeded scheduler, clients, event log, replay.

One run = (config, universe, clients) derived from one integer seed.  A seeded scheduler decides,
step by step, which logical client performs its next public call.  Ops are JSON data; the executed
op list is the trace, and replaying a trace needs neither the clients nor the PRNG.
"""
import hashlib
import json
import os
from collections import Counter

from .rng import Rng, derive

ENGINE_VERSION = 1


class Violation(Exception):
    """The property is violated.  ``signature`` holds discrete facts only (no seeds, no floats)."""

    def __init__(self, signature: str, message: str, detail=None):
        super().__init__(f"{signature}: {message}")
        self.signature = signature
        self.message = message
        self.detail = detail


class HarnessError(Exception):
    """The machinery itself is wrong (model, builder, comparator).  Never reported as a violation."""


def canon(x):
    """Canonical JSON-able form: sets sorted, tuples -> lists, floats via repr, numpy scalars unwrapped."""
    import numpy as np

    if x is None or isinstance(x, (bool, str)):
        return x
    if isinstance(x, (int, np.integer)):
        return int(x)
    if isinstance(x, (float, np.floating)):
        return repr(float(x))
    if isinstance(x, np.ndarray):
        return [canon(v) for v in x.tolist()]
    if isinstance(x, dict):
        return {str(k): canon(v) for k, v in sorted(x.items(), key=lambda kv: str(kv[0]))}
    if isinstance(x, (set, frozenset)):
        return sorted((canon(v) for v in x), key=lambda v: json.dumps(v, sort_keys=True))
    if isinstance(x, (list, tuple)):
        return [canon(v) for v in x]
    if isinstance(x, BaseException):
        return {"exc": type(x).__name__}
    raise HarnessError(f"canon: unsupported type {type(x)}")


class EventLog:
    def __init__(self):
        self.events = []
        self._h = hashlib.sha256()

    def append(self, seq, client, op, outcome):
        ev = {"seq": seq, "client": client, "op": op, "outcome": canon(outcome)}
        self.events.append(ev)
        self._h.update(json.dumps(ev, sort_keys=True).encode())

    def digest(self):
        return self._h.hexdigest()


class RunBase:
    """One simulated run: the system under test plus its reference model.

    Subclasses implement ``enabled`` (is the op's precondition met in the current model state),
    ``apply`` (perform it on the real code and on the model, check invariants, return a canonical
    outcome) and ``finish`` (checks over the recorded history).
    """

    def __init__(self, universe, cfg):
        self.universe = universe
        self.cfg = cfg
        self.probes = Counter()
        self.faults = Counter()
        self.state_hashes = set()
        self.sim_time = 0.0
        self.soft_violations = []

    def soft(self, signature, message, detail=None):
        """A violation that does not stop the run: exploration continues (used for defects whose effect the
        oracle can model, e.g. an open known finding) and the first one is reported when the run ends, unless a
        hard violation comes first."""
        if not any(s == signature for s, _, _ in self.soft_violations):
            self.soft_violations.append((signature, message, detail))

    def raise_soft(self):
        if self.soft_violations:
            s, m, d = self.soft_violations[0]
            raise Violation(s, m, d)

    def enabled(self, op) -> bool:
        return True

    def apply(self, op):
        raise NotImplementedError

    def finish(self):
        pass

    def close(self):
        pass

    def probe(self, name, n=1):
        self.probes[name] += n

    def note_state(self, abstract_state):
        self.state_hashes.add(hashlib.sha1(json.dumps(canon(abstract_state), sort_keys=True).encode()).hexdigest())


class Client:
    """A logical caller: a generator yielding op dicts (or None when it has nothing to do).

    The value sent back into the generator is the canonical outcome of the op it yielded.
    """

    def __init__(self, name, weight, gen):
        self.name = name
        self.weight = weight
        self.gen = gen
        self.done = False
        self._started = False
        self._last = None

    def next_op(self):
        try:
            if not self._started:
                self._started = True
                return next(self.gen)
            return self.gen.send(self._last)
        except StopIteration:
            self.done = True
            return None

    def deliver(self, outcome):
        self._last = outcome


class Property:
    """Interface each props/cNN module implements."""

    id = "C00"
    title = ""
    max_steps = 30

    def gen_config(self, rng: Rng) -> dict:
        raise NotImplementedError

    def gen_universe(self, rng: Rng, cfg: dict) -> dict:
        raise NotImplementedError

    def new_run(self, universe: dict, cfg: dict) -> RunBase:
        raise NotImplementedError

    def make_clients(self, rng: Rng, cfg: dict, run: RunBase):
        raise NotImplementedError

    # -- minimisation hooks -------------------------------------------------
    def prune_universe(self, universe: dict, trace: list):
        """Yield smaller universes worth trying (objects no remaining op mentions removed)."""
        return []

    def simplify_op(self, op: dict):
        """Yield simpler variants of one op."""
        return []

    def components(self):
        return {"real": [], "stub": []}


class RunResult:
    def __init__(self):
        self.seed = None
        self.cfg = None
        self.universe = None
        self.trace = []  # list of {"c": client, "op": {...}}
        self.digest = None
        self.steps = 0
        self.violation = None  # dict(signature, message, detail)
        self.probes = Counter()
        self.faults = Counter()
        self.schedule_hash = None
        self.nontrivial = False
        self.n_states = 0
        self.state_hashes = set()
        self.sim_time = 0.0
        self.skipped = 0

    def to_replay(self, prop_id):
        return {
            "property": prop_id,
            "engine_version": ENGINE_VERSION,
            "seed": self.seed,
            "config": self.cfg,
            "universe": self.universe,
            "trace": self.trace,
            "signature": self.violation["signature"] if self.violation else None,
            "message": self.violation["message"] if self.violation else None,
            "digest": self.digest,
            "hashseed": os.environ.get("PYTHONHASHSEED", ""),
        }


def _schedule_hash(trace):
    h = hashlib.sha1()
    for e in trace:
        h.update(f"{e['c']}|{e['op'].get('op')}|{e['op'].get('kind', '')}|{e['op'].get('form', '')};".encode())
    return h.hexdigest()


def _finish_result(res: RunResult, run: RunBase, log: EventLog, prop: Property):
    res.digest = log.digest()
    res.steps = len(log.events)
    res.probes = Counter(run.probes)
    res.faults = Counter(run.faults)
    res.schedule_hash = _schedule_hash(res.trace)
    res.state_hashes = set(run.state_hashes)
    res.n_states = len(run.state_hashes)
    res.sim_time = run.sim_time
    kinds = {e["op"].get("op") for e in res.trace}
    res.nontrivial = len(res.trace) >= 3 and len(kinds) >= 2
    return res


def generate_and_run(prop: Property, seed: int) -> RunResult:
    """Generate one run from its seed and execute it against the real code."""
    res = RunResult()
    res.seed = int(seed)
    cfg = prop.gen_config(Rng(derive(seed, prop.id, "cfg")))
    universe = prop.gen_universe(Rng(derive(seed, prop.id, "universe")), cfg)
    # the spec must be pure JSON so that the replay file is self-contained
    universe = json.loads(json.dumps(universe))
    cfg = json.loads(json.dumps(cfg))
    res.cfg, res.universe = cfg, universe
    run = prop.new_run(universe, cfg)
    log = EventLog()
    cur = None
    try:
        clients = prop.make_clients(Rng(derive(seed, prop.id, "clients")), cfg, run)
        sched = Rng(derive(seed, prop.id, "sched"))
        steps = int(cfg.get("steps", prop.max_steps))
        idle = 0
        seq = 0
        while seq < steps and idle < 4 * len(clients) + 8:
            runnable = [c for c in clients if not c.done]
            if not runnable:
                break
            c = sched.weighted(runnable, [cl.weight for cl in runnable])
            op = c.next_op()
            if op is None:
                idle += 1
                continue
            op = json.loads(json.dumps(op))
            if not run.enabled(op):
                # a client proposed something whose precondition does not hold: harness bug
                raise HarnessError(f"client {c.name} generated a disabled op {op}")
            idle = 0
            res.trace.append({"c": c.name, "op": op})
            cur = (seq, c.name, op)
            outcome = run.apply(op)
            cur = None
            c.deliver(canon(outcome))
            log.append(seq, c.name, op, outcome)
            seq += 1
        run.finish()
        run.raise_soft()
    except Violation as v:
        if cur is not None:
            log.append(cur[0], cur[1], cur[2], {"violation": v.signature})
        res.violation = {"signature": v.signature, "message": v.message, "detail": canon(v.detail)}
    finally:
        run.close()
    return _finish_result(res, run, log, prop)


def replay(prop: Property, universe: dict, cfg: dict, trace: list) -> RunResult:
    """Interpret a trace against a freshly built universe.  Ops whose precondition has disappeared
    (because the shrinker dropped something they depended on) are skipped and counted."""
    res = RunResult()
    res.cfg, res.universe = cfg, universe
    run = prop.new_run(universe, cfg)
    log = EventLog()
    cur = None
    try:
        seq = 0
        for e in trace:
            op = e["op"]
            if not run.enabled(op):
                res.skipped += 1
                continue
            res.trace.append({"c": e["c"], "op": op})
            cur = (seq, e["c"], op)
            outcome = run.apply(op)
            cur = None
            log.append(seq, e["c"], op, outcome)
            seq += 1
        run.finish()
        run.raise_soft()
    except Violation as v:
        if cur is not None:
            log.append(cur[0], cur[1], cur[2], {"violation": v.signature})
        res.violation = {"signature": v.signature, "message": v.message, "detail": canon(v.detail)}
    finally:
        run.close()
    return _finish_result(res, run, log, prop)


# ---------------------------------------------------------------------------------------------------------
# Process-isolated execution (properties with `isolate_runs = True`)
# ---------------------------------------------------------------------------------------------------------
def _iso_entry(payload):
    """Executed in a grandchild of the zygote, i.e. in a process that never executed a run before: a run cannot
    see what earlier runs left behind in process-global state, so one seed is one repeatable execution even for a
    library that (wrongly) keeps such state."""
    import logging
    import warnings

    warnings.simplefilter("ignore")
    logging.disable(logging.CRITICAL)
    import sys

    sys.stdout = open(os.devnull, "w")
    from .runner import load_prop

    prop = load_prop(payload["prop"])
    if payload["kind"] == "generate":
        return generate_and_run(prop, payload["seed"])
    return replay(prop, payload["universe"], payload["cfg"], payload["trace"])


def _iso_call(payload):
    from .seams import get_zygote

    res = get_zygote().call("simkit.engine:_iso_entry", payload)
    if res[0] != "ok":
        raise HarnessError(f"isolated run failed: {res[1]}: {res[2]}")
    return res[1]


def _set_warmup(prop):
    from . import seams

    seams.ZYGOTE_WARMUP = list(getattr(prop, "zygote_warmup", []))


def execute(prop: Property, seed: int) -> RunResult:
    if getattr(prop, "isolate_runs", False):
        _set_warmup(prop)
        return _iso_call({"kind": "generate", "prop": prop.id, "seed": int(seed)})
    return generate_and_run(prop, seed)


def execute_replay(prop: Property, universe: dict, cfg: dict, trace: list) -> RunResult:
    if getattr(prop, "isolate_runs", False):
        _set_warmup(prop)
        return _iso_call({"kind": "replay", "prop": prop.id, "universe": universe, "cfg": cfg, "trace": trace})
    return replay(prop, universe, cfg, trace)
