"""Minimise a failing run: ddmin over the op list, universe pruning, per-op simplification.

Every candidate is a full deterministic re-execution; a candidate is accepted only if the SAME
signature fires again.
"""
import copy
import hashlib
import json
import time

from .engine import execute_replay as replay


def _fails(prop, universe, cfg, trace, signature):
    try:
        r = replay(prop, universe, cfg, trace)
    except Exception:  # a candidate that breaks the harness is simply not accepted
        return None
    if r.violation is not None and r.violation["signature"] == signature:
        return r
    return None


def minimise(prop, res, budget_s=60.0):
    """Returns a RunResult (from replay) with a minimal trace/universe showing the same signature."""
    sig = res.violation["signature"]
    t_end = time.monotonic() + budget_s  # wall clock bounds the shrinker only, never a run
    universe, cfg = res.universe, res.cfg
    best = _fails(prop, universe, cfg, res.trace, sig)
    if best is None:
        return None  # not reproducible by replay: caller reports a harness error
    trace = best.trace  # already without skipped ops

    # 1. ddmin over ops
    n = 2
    while len(trace) >= 2 and time.monotonic() < t_end:
        chunk = max(1, len(trace) // n)
        reduced = False
        for i in range(0, len(trace), chunk):
            cand = trace[:i] + trace[i + chunk:]
            if not cand:
                continue
            r = _fails(prop, universe, cfg, cand, sig)
            if r is not None:
                trace, best = r.trace, r
                n = max(n - 1, 2)
                reduced = True
                break
        if not reduced:
            if chunk == 1:
                break
            n = min(len(trace), n * 2)

    # 2./3. universe pruning and per-op simplification, repeated until nothing changes
    seen = set()

    def fresh(u, t):
        k = hashlib.sha1(json.dumps([u, t], sort_keys=True).encode()).hexdigest()
        if k in seen:
            return False
        seen.add(k)
        return True

    fresh(universe, trace)
    changed = True
    while changed and time.monotonic() < t_end:
        changed = False
        for u in prop.prune_universe(universe, trace):
            if not fresh(u, trace):
                continue
            r = _fails(prop, u, cfg, trace, sig)
            if r is not None:
                universe, trace, best = u, r.trace, r
                changed = True
                break
        if changed:
            continue
        for i, e in enumerate(trace):
            for simpler in prop.simplify_op(e["op"]):
                if simpler == e["op"]:
                    continue
                cand = copy.deepcopy(trace)
                cand[i] = {"c": e["c"], "op": simpler}
                if not fresh(universe, cand):
                    continue
                r = _fails(prop, universe, cfg, cand, sig)
                if r is not None and len(r.trace) <= len(trace):
                    trace, best = r.trace, r
                    changed = True
                    break
            if changed:
                break
    best.seed = res.seed
    return best
