"""Seeded randomness: one integer decides everything.

Every stream is a ``random.Random`` seeded from SHA-256(seed, labels...), so adding a draw to one
stream never shifts another one, and nothing depends on PYTHONHASHSEED or on real time.
"""
import hashlib
import random


def derive(seed, *labels) -> int:
    h = hashlib.sha256()
    h.update(str(int(seed)).encode())
    for lab in labels:
        h.update(b"\x00")
        h.update(str(lab).encode())
    return int.from_bytes(h.digest()[:8], "big")


class Rng(random.Random):
    """random.Random with a few helpers. Never seeded from the clock."""

    def __init__(self, seed):
        super().__init__(int(seed))
        self._seed_value = int(seed)

    def sub(self, *labels) -> "Rng":
        return Rng(derive(self._seed_value, *labels))

    def chance(self, p: float) -> bool:
        return self.random() < p

    def weighted(self, items, weights):
        total = float(sum(weights))
        x = self.random() * total
        acc = 0.0
        for it, w in zip(items, weights):
            acc += w
            if x < acc:
                return it
        return items[-1]

    def subset(self, items, p=0.5, at_least=0):
        items = list(items)
        out = [x for x in items if self.random() < p]
        if len(out) < at_least:
            rest = [x for x in items if x not in out]
            self.shuffle(rest)
            out += rest[: at_least - len(out)]
        return out

    def pick(self, items):
        items = list(items)
        return items[self.randrange(len(items))]
