"""Entry point used by ./check.  Exit codes: 0 = held, 1 = VIOLATION, 2 = harness error."""
import argparse
import json
import os
import sys


def main(argv=None):
    ap = argparse.ArgumentParser()
    ap.add_argument("prop")
    ap.add_argument("--tier", default=os.environ.get("VERIF_TIER", "quick"), choices=["quick", "thorough"])
    ap.add_argument("--seed", type=int, default=int(os.environ.get("VERIF_SEED", "0") or 0))
    ap.add_argument("--runs", type=int, default=None)
    ap.add_argument("--workers", type=int, default=None)
    ap.add_argument("--wall", type=float, default=None)
    ap.add_argument("--replay", default=None)
    ap.add_argument("--one", type=int, default=None, help="run a single run index in-process and print its trace")
    ap.add_argument("--digests", action="store_true", help="print per-run digests (determinism self-test)")
    ap.add_argument("--no-evidence", action="store_true")
    ap.add_argument("--noisy", action="store_true")
    a = ap.parse_args(argv)

    import logging

    logging.disable(logging.CRITICAL)
    from . import runner

    if a.replay:
        rp, r, same = runner.replay_file(a.replay)
        print(f"replay property={rp['property']} signature={rp['signature']}")
        if r.violation:
            print(f"  fired: {r.violation['signature']}: {r.violation['message']}")
        else:
            print("  no violation fired")
        print(f"  digest recorded={rp['digest']} now={r.digest}")
        if same and r.digest == rp["digest"]:
            print(f"VIOLATION property={rp['property']} replay={os.path.abspath(a.replay)}")
            return 1
        if same:
            print("  same signature but different event-log digest")
            return 1
        return 0

    if a.one is not None:
        import warnings

        warnings.simplefilter("ignore")
        from .engine import execute as generate_and_run

        prop = runner.load_prop(a.prop)
        seed = runner.run_seed(a.seed, a.prop, a.one)
        res = generate_and_run(prop, seed)
        print(json.dumps({"seed": seed, "config": res.cfg, "trace": res.trace, "violation": res.violation,
                          "digest": res.digest, "probes": dict(res.probes), "faults": dict(res.faults)}, indent=1))
        return 1 if res.violation else 0

    out = runner.run_batch(a.prop, a.tier, a.seed, runs=a.runs, workers=a.workers, wall_cap=a.wall,
                           quiet=not a.noisy, write_evidence=not a.no_evidence)
    if a.tier == "thorough" and a.runs is None and not a.no_evidence:
        # determinism self-test as part of the thorough tier: same seeds, other hash seeds / worker counts, fresh
        # interpreters, plus generate -> replay digest round trip
        import subprocess

        p = subprocess.run([sys.executable, "-m", "selftest.determinism", a.prop, "--runs", "48", "--seeds",
                            str(a.seed)], cwd=os.path.dirname(os.path.dirname(os.path.abspath(__file__))),
                           stdout=subprocess.PIPE, stderr=subprocess.DEVNULL, text=True)
        ok = p.returncode == 0 and "SELFTEST PASSED" in p.stdout
        ev_path = os.path.join(runner.VERIF, "evidence", f"{a.prop}.json")
        ev_all = json.load(open(ev_path))
        ev_all["coverage"]["determinism_selftest"] = {
            "passed": ok, "what": "48 runs x (16 workers/hash seed 0, 1 worker/hash seed 1, 5 workers/random hash "
                                  "seed, 16 workers/hash seed 12345) in fresh interpreters: identical per-run event-log "
                                  "digests; generate -> replay digest round trip"}
        json.dump(ev_all, open(ev_path, "w"), indent=1, sort_keys=True)
        print(f"determinism self-test: {'passed' if ok else 'FAILED'}")
        if not ok:
            out["harness_errors"].append("determinism self-test failed:\n" + p.stdout[-1500:])
    if a.digests:
        for r in out["results"]:
            print(f"DIGEST {r['index']} {r['digest']}")
    for ln in out["lines"]:
        print(ln)
    ev = out["evidence"]["coverage"]
    print(f"{a.prop} {a.tier} seed={a.seed}: {ev['evaluations']} runs, {ev['steps']} steps, "
          f"{ev['distinct_nontrivial']} distinct non-trivial schedules, {ev['distinct_abstract_states']} abstract states, "
          f"faults={ev['faults_fired']} wall={out['evidence']['wall_s']}s")
    if ev["probes_never_hit"]:
        print(f"  probes never hit: {ev['probes_never_hit']}")
    if out["harness_errors"]:
        for h in out["harness_errors"][:5]:
            print("HARNESS-ERROR " + h, file=sys.stderr)
        print(f"HARNESS-ERROR count={len(out['harness_errors'])}", file=sys.stderr)
        return 2
    return 1 if out["violations"] else 0


if __name__ == "__main__":
    sys.exit(main())
