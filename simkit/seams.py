"""Seams the simulator owns: the writers' clock and the protobuf writer's open().

No hook in /repo is needed: both are module attributes of the writer modules that can be replaced
from outside (`file_writer_xml.datetime`, `file_writer_protobuf.datetime`, `file_writer_protobuf.open`).
"""
import builtins
import datetime as _real_datetime
import errno
import os
import pickle
import types


class SimClock:
    def __init__(self, start: _real_datetime.datetime):
        self.now = start
        self.covered = 0.0
        self.reads = 0

    def advance(self, seconds):
        self.now = self.now + _real_datetime.timedelta(seconds=seconds)
        self.covered += abs(seconds)


def make_datetime_shim(clock: SimClock):
    """A module-like namespace whose `datetime` is a subclass of the real datetime.datetime reading `clock`
    (the protobuf writer does isinstance(x, datetime.datetime) against the module attribute)."""

    class SimDateTime(_real_datetime.datetime):
        @classmethod
        def today(cls):
            clock.reads += 1
            n = clock.now
            return cls(n.year, n.month, n.day, n.hour, n.minute, n.second, n.microsecond)

        @classmethod
        def now(cls, tz=None):
            return cls.today()

    return types.SimpleNamespace(datetime=SimDateTime, date=_real_datetime.date, timedelta=_real_datetime.timedelta,
                                 time=_real_datetime.time, timezone=_real_datetime.timezone)


class TornFile:
    """File object whose write() stores the first n bytes and then raises ENOSPC (torn write)."""

    def __init__(self, f, n):
        self.f, self.n = f, n

    def write(self, data):
        self.f.write(data[: self.n])
        self.f.flush()
        raise OSError(errno.ENOSPC, "No space left on device (injected)")

    def __enter__(self):
        return self

    def __exit__(self, *a):
        self.f.close()
        return False


class OpenShim:
    """Shadows `open` inside file_writer_protobuf.  Armed once -> the next binary write is torn."""

    def __init__(self):
        self.armed = None
        self.fired = 0

    def arm(self, nbytes):
        self.armed = int(nbytes)

    def __call__(self, path, mode="r", *a, **kw):
        f = builtins.open(path, mode, *a, **kw)
        if self.armed is not None and "w" in mode:
            n, self.armed = self.armed, None
            self.fired += 1
            return TornFile(f, n)
        return f


class Seams:
    """Installs / removes the seams.  One instance per run."""

    def __init__(self, clock: SimClock):
        import commonroad.common.writer.file_writer_protobuf as wpb
        import commonroad.common.writer.file_writer_xml as wxml

        self.wxml, self.wpb = wxml, wpb
        self.clock = clock
        self.open_shim = OpenShim()
        self._saved = (wxml.datetime, wpb.datetime, wpb.__dict__.get("open", None))
        shim = make_datetime_shim(clock)
        wxml.datetime = shim
        wpb.datetime = shim
        wpb.open = self.open_shim
        # the interactive overwrite question (OverwriteExistingFile.ASK_USER_INPUT): `input` is looked up in the
        # module namespace first, so a module attribute scripts the user's answer
        import commonroad.common.writer.file_writer_interface as wi

        self.wi = wi
        self.answers = []  # scripted answers, consumed front to back
        self.asked = 0
        self._saved_input = (wi.__dict__.get("input"), wxml.__dict__.get("input"))

        def scripted_input(prompt=""):
            self.asked += 1
            if not self.answers:
                raise RuntimeError("the writer asked the user although no answer was scripted")
            return self.answers.pop(0)

        wi.input = scripted_input
        wxml.input = scripted_input

    def remove(self):
        self.wxml.datetime, self.wpb.datetime, old_open = self._saved
        if old_open is None:
            self.wpb.__dict__.pop("open", None)
        else:
            self.wpb.open = old_open
        for mod, old in zip((self.wi, self.wxml), self._saved_input):
            if old is None:
                mod.__dict__.pop("input", None)
            else:
                mod.input = old


def in_fork(fn):
    """Run fn() in a forked child and return its (picklable) result; the parent is untouched.
    Exceptions in fn are returned as ("exc", class name, text)."""
    r, w = os.pipe()
    pid = os.fork()
    if pid == 0:
        code = 0
        try:
            os.close(r)
            try:
                res = ("ok", fn())
            except BaseException as e:  # noqa
                res = ("exc", type(e).__name__, str(e)[:300])
            data = pickle.dumps(res)
            with os.fdopen(w, "wb") as f:
                f.write(data)
        except BaseException:  # noqa
            code = 3
        finally:
            os._exit(code)
    os.close(w)
    chunks = []
    with os.fdopen(r, "rb") as f:
        while True:
            b = f.read(1 << 16)
            if not b:
                break
            chunks.append(b)
    _, status = os.waitpid(pid, 0)
    if status != 0 or not chunks:
        raise RuntimeError(f"forked twin failed with status {status}")
    return pickle.loads(b"".join(chunks))


# ------------------------------------------------------------------------------------------------------------
# Pristine twin server ("zygote")
# ------------------------------------------------------------------------------------------------------------
import importlib  # noqa: E402
import struct  # noqa: E402


def _send(fd, obj):
    data = pickle.dumps(obj)
    os.write(fd, struct.pack("<Q", len(data)))
    view = memoryview(data)
    while view:
        n = os.write(fd, view[: 1 << 16])
        view = view[n:]


def _recv(fd):
    hdr = b""
    while len(hdr) < 8:
        b = os.read(fd, 8 - len(hdr))
        if not b:
            return None
        hdr += b
    (n,) = struct.unpack("<Q", hdr)
    chunks, got = [], 0
    while got < n:
        b = os.read(fd, min(1 << 16, n - got))
        if not b:
            return None
        chunks.append(b)
        got += len(b)
    return pickle.loads(b"".join(chunks))


class Zygote:
    """A child forked from a process in which NO simulated run has executed yet (modules imported, nothing else).
    It answers requests `(module:function, payload)`; every request runs in a grandchild forked from the zygote,
    so the zygote's own process state stays as it was: whatever process-global state the runs of the parent
    accumulate (settings, caches, class attributes) cannot reach the answers."""

    def __init__(self):
        req_r, req_w = os.pipe()
        resp_r, resp_w = os.pipe()
        pid = os.fork()
        if pid == 0:
            try:
                os.close(req_w)
                os.close(resp_r)
                # optional warm-up of THIRD-PARTY machinery only (e.g. matplotlib's font cache), so that every
                # grandchild does not pay for it again; nothing of the library under test is touched
                for target in ZYGOTE_WARMUP:
                    try:
                        mod, fn = target.split(":")
                        getattr(importlib.import_module(mod), fn)()
                    except BaseException:  # noqa
                        pass
                while True:
                    msg = _recv(req_r)
                    if msg is None:
                        break
                    target, payload = msg
                    mod, fn = target.split(":")

                    def call():
                        return getattr(importlib.import_module(mod), fn)(payload)

                    try:
                        res = in_fork(call)
                    except BaseException as e:  # noqa
                        res = ("exc", "ZygoteFailure", str(e)[:300])
                    _send(resp_w, res)
            finally:
                os._exit(0)
        os.close(req_r)
        os.close(resp_w)
        self.pid, self.req_w, self.resp_r = pid, req_w, resp_r
        self.owner = os.getpid()

    def call(self, target, payload):
        _send(self.req_w, (target, payload))
        res = _recv(self.resp_r)
        if res is None:
            raise RuntimeError("pristine twin server died")
        return res


_ZYGOTE = None
ZYGOTE_WARMUP = []  # "module:function" strings, set by the property before its first isolated run


def get_zygote():
    """The zygote of this process (created on first use; workers create theirs before their first run)."""
    global _ZYGOTE
    if _ZYGOTE is None or _ZYGOTE.owner != os.getpid():
        _ZYGOTE = Zygote()
    return _ZYGOTE
