"""Batch runner: seeded search over many simulated runs on all cores, evidence, findings, replay."""
import concurrent.futures as cf
import contextlib
import io
import faulthandler
import hashlib
import importlib
import json
import logging
import multiprocessing
import os
import sys
import time
import traceback
import warnings
from collections import Counter

from .engine import ENGINE_VERSION, HarnessError
from .engine import execute as generate_and_run
from .engine import execute_replay as replay
from .rng import derive
from .shrink import minimise

VERIF = os.path.dirname(os.path.dirname(os.path.abspath(__file__)))

PROP_MODULES = {
    "C06": "props.c06_spatial",
    "C07": "props.c07_assignment",
    "C09": "props.c09_ids",
    "C10": "props.c10_dangling",
    "C11": "props.c11_stale",
    "C15": "props.c15_writers",
    "C18": "props.c18_readonly",
}


def load_prop(prop_id):
    if prop_id not in PROP_MODULES:
        raise SystemExit(f"unknown or unclaimed property {prop_id}")
    mod = importlib.import_module(PROP_MODULES[prop_id])
    return mod.PROPERTY


def run_seed(batch_seed, prop_id, index):
    return derive(batch_seed, prop_id, "run", index)


# ---------------------------------------------------------------------------------------------
# worker side
# ---------------------------------------------------------------------------------------------
_W = {}


def _worker_init(prop_id, quiet):
    warnings.simplefilter("ignore")
    logging.disable(logging.CRITICAL)
    os.environ.setdefault("MPLBACKEND", "Agg")
    if quiet:
        sys.stdout = open(os.devnull, "w")
    _W["prop"] = load_prop(prop_id)
    if getattr(_W["prop"], "needs_zygote", False) or getattr(_W["prop"], "isolate_runs", False):
        from . import seams
        from .seams import get_zygote

        seams.ZYGOTE_WARMUP = list(getattr(_W["prop"], "zygote_warmup", []))
        get_zygote()  # fork the pristine twin server now, before this worker executes its first run


def _summarise(index, res, shrunk):
    out = {
        "index": index,
        "seed": res.seed,
        "digest": res.digest,
        "steps": res.steps,
        "probes": dict(res.probes),
        "faults": dict(res.faults),
        "schedule": res.schedule_hash,
        "nontrivial": res.nontrivial,
        "states": sorted(h[:12] for h in res.state_hashes),
        "sim_time": res.sim_time,
        "violation": None,
    }
    if res.violation is not None:
        out["violation"] = {
            "signature": res.violation["signature"],
            "message": res.violation["message"],
            "orig_len": len(res.trace),
            "replay": shrunk,
        }
    return out


def _worker_task(args):
    prop_id, batch_seed, indices, shrink_budget, keep_samples = args
    prop = _W["prop"]
    faulthandler.dump_traceback_later(600, exit=True)
    out = []
    try:
        for i in indices:
            seed = run_seed(batch_seed, prop_id, i)
            try:
                res = generate_and_run(prop, seed)
            except Exception as e:
                out.append({"index": i, "seed": seed, "harness_error": "".join(traceback.format_exception(e))})
                continue
            shrunk = None
            if res.violation is not None:
                seen = _W.setdefault("minimised", {})
                n_seen = seen.get(res.violation["signature"], 0)
                seen[res.violation["signature"]] = n_seen + 1
                try:
                    # minimise the first few occurrences of a signature per worker; later ones are only replayed
                    m = minimise(prop, res, budget_s=shrink_budget if n_seen < 2 else 0.0)
                except Exception as e:
                    out.append({"index": i, "seed": seed, "harness_error": "".join(traceback.format_exception(e))})
                    continue
                if m is None:
                    out.append({"index": i, "seed": seed,
                                "harness_error": f"violation {res.violation['signature']} did not reproduce on replay "
                                                 f"(seed {seed}): {res.violation['message']}"})
                    continue
                shrunk = m.to_replay(prop_id)
            s = _summarise(i, res, shrunk)
            if i in keep_samples:
                s["sample"] = {"seed": seed, "config": res.cfg, "trace": res.trace}
            out.append(s)
    finally:
        faulthandler.cancel_dump_traceback_later()
    return out


# ---------------------------------------------------------------------------------------------
# known findings
# ---------------------------------------------------------------------------------------------
def load_known(prop_id):
    path = os.path.join(VERIF, "known_findings.json")
    if not os.path.exists(path):
        return []
    with open(path) as f:
        data = json.load(f)
    return [e for e in data.get("findings", []) if e.get("property") == prop_id]


# ---------------------------------------------------------------------------------------------
# parent side
# ---------------------------------------------------------------------------------------------
def run_batch(prop_id, tier, batch_seed, runs=None, workers=None, wall_cap=None, quiet=True, write_evidence=True):
    prop = load_prop(prop_id)
    tcfg = dict(prop.tiers[tier])
    if runs is not None:
        tcfg["runs"] = runs
    if wall_cap is not None:
        tcfg["wall"] = wall_cap
    n_runs = int(tcfg["runs"])
    wall = float(tcfg["wall"])
    workers = workers or int(os.environ.get("VERIF_WORKERS", "0")) or min(16, os.cpu_count() or 1)
    chunk = int(tcfg.get("chunk", 10))
    shrink_budget = float(tcfg.get("shrink_budget", 45))
    sample_idx = {0, 1, 2}

    t0 = time.monotonic()
    tasks = [list(range(i, min(i + chunk, n_runs))) for i in range(0, n_runs, chunk)]
    results, harness_errors = [], []
    submitted = 0
    stopped_early = False
    ctx = multiprocessing.get_context("fork")
    with cf.ProcessPoolExecutor(max_workers=workers, mp_context=ctx, initializer=_worker_init,
                                initargs=(prop_id, quiet)) as pool:
        pending = set()
        it = iter(tasks)

        def submit_more():
            nonlocal submitted
            while len(pending) < workers * 2:
                t = next(it, None)
                if t is None:
                    return
                pending.add(pool.submit(_worker_task, (prop_id, batch_seed, t, shrink_budget, sample_idx)))
                submitted += len(t)

        submit_more()
        while pending:
            done, pending = cf.wait(pending, timeout=900, return_when=cf.FIRST_COMPLETED)
            if not done:
                harness_errors.append("worker timeout (900 s without a finished task)")
                for p in pending:
                    p.cancel()
                break
            for d in done:
                try:
                    results.extend(d.result())
                except Exception as e:
                    harness_errors.append("worker failed: " + "".join(traceback.format_exception(e)))
            # (evaluation of seeded changes only: once enough hard violations are in, submitting more runs tells nothing new)
            stop_after = int(os.environ.get("VERIF_STOP_AFTER_VIOLATIONS", "0") or 0)
            enough = stop_after > 0 and sum(
                1 for r in results if isinstance(r, dict) and r.get("violation")
                and not str(r["violation"]["signature"]).split("/")[1:2] == ["known"]
                and "circle-exports-half-radius" not in r["violation"]["signature"]) >= stop_after
            if time.monotonic() - t0 < wall and not enough:
                submit_more()
            else:
                stopped_early = stopped_early or next(it, None) is not None
    wall_s = time.monotonic() - t0

    results.sort(key=lambda r: r["index"])
    for r in results:
        if "harness_error" in r:
            harness_errors.append(f"run {r['index']} seed {r['seed']}: {r['harness_error']}")
    ok = [r for r in results if "harness_error" not in r]

    # ---- violations -> known findings / replay files
    known = load_known(prop_id)
    open_sigs = {e["signature"]: e for e in known if e.get("status") == "open"}
    by_sig = {}
    for r in ok:
        v = r["violation"]
        if v is None:
            continue
        cur = by_sig.get(v["signature"])
        if cur is None or len(v["replay"]["trace"]) < len(cur["replay"]["trace"]):
            by_sig[v["signature"]] = v
    lines, new_violations, muted = [], [], []
    for sig, v in sorted(by_sig.items()):
        if sig in open_sigs:
            muted.append(sig)
            lines.append(f"KNOWN-FINDING: property={prop_id} {open_sigs[sig]['what']}")
            continue
        rdir = os.path.join(os.environ.get("VERIF_REPLAY_DIR") or os.path.join(VERIF, "replays"), prop_id)
        os.makedirs(rdir, exist_ok=True)
        name = hashlib.sha1(sig.encode()).hexdigest()[:10] + f"-{v['replay']['seed']}.json"
        path = os.path.join(rdir, name)
        with open(path, "w") as f:
            json.dump(v["replay"], f, indent=1, sort_keys=True)
        new_violations.append((sig, path, v))
        lines.append(f"VIOLATION property={prop_id} replay={path}")
        lines.append(f"  signature: {sig}")
        lines.append(f"  message:   {v['replay']['message']}")
        lines.append(f"  minimised: {v['orig_len']} ops -> {len(v['replay']['trace'])} ops, seed {v['replay']['seed']}")

    # ---- regression: replays of defects that were repaired must stay quiet
    fixed_dir = os.path.join(VERIF, "replays", "fixed", prop_id)
    regress_checked = 0
    if os.path.isdir(fixed_dir):
        for name in sorted(os.listdir(fixed_dir)):
            if not name.endswith(".json"):
                continue
            path = os.path.join(fixed_dir, name)
            try:
                with contextlib.redirect_stdout(io.StringIO()):
                    rp, r, same = replay_file(path)
            except Exception as e:
                harness_errors.append(f"regression replay {name}: " + "".join(traceback.format_exception(e)))
                continue
            regress_checked += 1
            if r.violation is not None and r.violation["signature"] not in open_sigs:
                v = {"signature": r.violation["signature"], "message": r.violation["message"],
                     "orig_len": len(rp["trace"]), "replay": rp}
                new_violations.append((r.violation["signature"], path, v))
                lines.append(f"VIOLATION property={prop_id} replay={path}")
                lines.append(f"  signature: {r.violation['signature']} (a repaired defect is back)")
                lines.append(f"  message:   {r.violation['message']}")

    # ---- evidence
    probes, faults = Counter(), Counter()
    schedules, nontrivial_schedules, states = set(), set(), set()
    steps = 0
    sim_time = 0.0
    samples = []
    for r in ok:
        probes.update(r["probes"])
        faults.update(r["faults"])
        schedules.add(r["schedule"])
        if r["nontrivial"]:
            nontrivial_schedules.add(r["schedule"])
        states.update(r["states"])
        steps += r["steps"]
        sim_time += r["sim_time"]
        if "sample" in r:
            samples.append(r["sample"])
    n_viol_runs = sum(1 for r in ok if r["violation"] is not None)
    digest_all = hashlib.sha256("".join(f"{r['index']}:{r['digest']};" for r in ok).encode()).hexdigest()
    evidence = {
        "property_id": prop_id,
        "tier": tier,
        "seed": int(batch_seed),
        "level": "exploration",
        "coverage": {
            "evaluations": len(ok),
            "distinct_nontrivial": len(nontrivial_schedules),
            "rule": "one evaluation = one simulated run (seeded config + universe + clients, executed against the "
                    "real library in lock-step with the reference model); distinct = distinct sequences of "
                    "(client, op kind, object kind, form) hashed with SHA-1; non-trivial = at least 3 executed ops "
                    "of at least 2 different op kinds",
            "samples": samples[:3],
            "steps": steps,
            "distinct_schedules": len(schedules),
            "distinct_abstract_states": len(states),
            "runs_requested": n_runs,
            "stopped_early_by_wall_cap": bool(stopped_early),
            "runs_per_hour": int(len(ok) / wall_s * 3600) if wall_s > 0 else 0,
            "seeds_per_hour": int(len(ok) / wall_s * 3600) if wall_s > 0 else 0,
            "steps_per_second": int(steps / wall_s) if wall_s > 0 else 0,
            "simulated_time": prop.describe_sim_time(sim_time, steps),
            "faults_fired": dict(sorted(faults.items())),
            "probes_hit": dict(sorted(probes.items())),
            "probes_never_hit": sorted(p for p in prop.expected_probes if probes.get(p, 0) == 0),
            "components": prop.components(),
            "workers": workers,
            "batch_digest": digest_all,
            "engine_version": ENGINE_VERSION,
            "library_under_test": _library_path(),
            "python_hash_seed": os.environ.get("PYTHONHASHSEED", ""),
            "runs_with_violation": n_viol_runs,
            "muted_known_findings": muted,
            "new_violation_signatures": [s for s, _, _ in new_violations],
            "harness_errors": len(harness_errors),
            "regression_replays_checked": regress_checked,
        },
        "assumptions": prop.assumptions,
        "wall_s": round(wall_s, 3),
        "violations": len(new_violations),
    }
    if write_evidence:
        os.makedirs(os.path.join(VERIF, "evidence"), exist_ok=True)
        with open(os.path.join(VERIF, "evidence", f"{prop_id}.json"), "w") as f:
            json.dump(evidence, f, indent=1, sort_keys=True)
    return {"lines": lines, "violations": new_violations, "harness_errors": harness_errors, "evidence": evidence,
            "results": ok}


def _library_path():
    import commonroad

    return os.path.dirname(os.path.abspath(commonroad.__file__))


def replay_file(path):
    with open(path) as f:
        rp = json.load(f)
    prop = load_prop(rp["property"])
    warnings.simplefilter("ignore")
    logging.disable(logging.CRITICAL)
    r = replay(prop, rp["universe"], rp["config"], rp["trace"])
    same = r.violation is not None and r.violation["signature"] == rp["signature"]
    return rp, r, same
