"""Regenerates MANIFEST.json from the list of built checks (keeps it valid at all times)."""
import json
import os
import sys

VERIF = os.path.dirname(os.path.dirname(os.path.abspath(__file__)))
sys.path.insert(0, VERIF)

NA = {
    "C01": "pure function of (scenario, planning problems, precision): no schedule, clock or fault in it; its one state dependence (the process-global precision) is decided under C15",
    "C02": "pure function of the written input: the protobuf writer rebuilds its message per call; nothing for a scheduler or fault injector to act on",
    "C03": "pure function input -> bytes -> XSD verdict; decided by input-space search, not by simulation",
    "C04": "pure function of (obstacle, time step); the caches behind it are decided under C11",
    "C05": "single call, pure geometric map of its arguments; that derived data follows the motion is C11",
    "C08": "pure predicate evaluated on deep copies; that it does not mutate is C18",
    "C12": "pure relations between values (==, hash); no history, clock or I/O",
    "C13": "pure string functions (print/parse of ids)",
    "C14": "pure dump -> fromstring composition; date and cpu name are constructor inputs, not clock reads the property depends on",
    "C16": "pure arithmetic on two to four numbers",
    "C17": "pure function of (cycle, t); the memo going stale under edits is decided under C11",
    "C19": "one draw+render per (input, configuration); renderer buffers live inside that one call; no schedule, clock or fault",
    "C20": "pure functions of polylines and of a graph; termination on cyclic graphs is a property of the input graph",
}
TEXT = {
    "C06": ("Seeded search over construction histories of lanelet networks (from a list, lanelet by lanelet, from another network, via Scenario.add_objects, cut-outs, removals) with restart faults (deepcopy, pickle, XML and protobuf write->read) in between; the harness also scribbles on every returned list (aliasing injection) and offers lanelets whose id is already present (must be refused); after every step all lookups (find_lanelet_by_position / _by_shape, contains_points, get_obstacles, map_obstacles_to_lanelets, filter_obstacles_in_network) are compared with a brute-force scan over the current lanelets' raw vertices by an independent geometry oracle with an explicit don't-care band; the shape-semantics clause (contains_point vs exported geometry) rides along as a side condition on the query shapes. Sampling, not proof.", "4.C06"),
    "C07": ("Seeded search over add / assign / remove / re-add histories of static and dynamic obstacles on small networks, with restart faults (XML / protobuf write then open(lanelet_assignment=True|False), deepcopy) and fork faults that keep the original scenario alive next to its copy (sibling isolation, clients swap between the two); obstacles may arrive pre-assigned, stand still while turning, creep across boundaries, carry shapes that do not contain their reference point; after every step the recorded centre and shape assignments and every lanelet's registry are compared with an independent geometric reference model (raw lanelet vertices, occupancy parameters, don't-care band), removed obstacles must have vanished from all registries, and removing a contained obstacle must not raise. Sampling, not proof.", "4.C07"),
    "C09": ("Seeded search over interleavings of several logical clients (explicit adders, generate-then-add clients, single/list removers, re-adders, a network replacer) sharing one Scenario, with injected rejected operations, mid-batch failures and pickle/deepcopy restarts, run in lock-step with an abstract id-pool model; after every step uniqueness, model equality and a black-box exactness probe of the id pool (every id 1..12 and every generated id is addable on a deep copy iff no contained object uses it) are checked, and generated ids are checked for freshness over the whole history. Sampling, not proof: a clean batch is evidence.", "4.C09"),
    "C10": ("Seeded search over histories of removals (network and scenario level, single and list form, with and without referenced elements) and cut-outs (by shape, by lanelet type, by lanelet list) on generated well-formed networks with shared signs/lights, stop lines and intersections, with restart and fork faults in between (a cut-out and its source, a copy and its original stay alive side by side and must not influence each other), removals of absent ids, in lock-step with a reference graph model; after every step no id-valued attribute may name a missing element and the abstraction of the real network must equal the model (relations as sets, content fingerprints of everything not removed). Sampling, not proof.", "4.C10"),
    "C11": ("Seeded search over interleavings of querier clients (which warm the caches) and mutator clients (translate_rotate on every level, prediction / trajectory / shape replacement, update_initial_state with history, lanelet add/remove, traffic-light cycle edits) with pickle/deepcopy restarts that carry warm caches along and fork faults that keep the original alive next to the copy (both are swept after every operation); after every step the answers of the mutated object are compared with those of an object freshly rebuilt through the public constructors from the current primary data, and the history lists with a list model. Sampling, not proof.", "4.C11"),
    "C15": ("Seeded search over interleavings of 1-4 writer clients (XML / protobuf, precisions 1..12, write_to_file / write_scenario_to_file, ALWAYS / SKIP) sharing the process-global precision, a tmpfs directory and a simulated clock, with clock jumps (seconds to years, backwards, across midnight), planted files, missing target directories and torn protobuf writes (ENOSPC after n bytes); every write is compared (date aside) with a pristine twin: an identically constructed writer that writes at once in a process that never executed a run (zygote server, scenario rebuilt from its spec, input mutations re-applied), so process-global state left behind by other writers cannot reach the oracle; each run and each replay itself executes in such a pristine process; scenarios are mutated between writes; further faults: directory at the target, /dev/full, scripted ASK_USER_INPUT answers; identically constructed writers are compared over the run's history, SKIP must leave planted bytes untouched, and sampled files are read back and their inventory compared. Sampling, not proof.", "4.C15"),
    "C18": ("Seeded search over histories of read-only operations by 1-3 inspector clients (occupancy / state / lanelet / traffic-light queries, goal checks, ==/hash, copy/deepcopy/pickle, draw+render, XML and protobuf export incl. failing variants: bad queries, missing directories, torn writes) on rich scenarios obtained directly or through a file round trip; a deep structural snapshot through public accessors (incl. which attributes each state object has and container types) must be unchanged after every operation, and fork-isolated exports taken at step 0 and later must be identical modulo the date. Sampling, not proof.", "4.C18"),
}
NOTE = {
    "C09": "trusted: the id-pool model and abstraction in props/c09_ids.py; Python's pickle/deepcopy; interleaving granularity is one public call",
    "C15": "trusted: the pristine twin is the library itself in a forked child (a defect a fresh writer shows too is C01-C03 territory); lxml/protobuf parsers used for normalisation; tmpfs",
    "C11": "trusted: the oracle is a fresh reconstruction by the library's own constructors (a defect that affects fresh and mutated objects alike is C04/C05/C17 territory); 1e-9 tolerance on reals",
    "C10": "trusted: the reference graph model in props/c10_dangling.py and the independent geometry oracle (crkit/geom.py) used to predict cut-out selections outside a don't-care band",
    "C07": "trusted: the independent geometry oracle (raw vertices, shapely predicates on geometry built from raw parameters) and its don't-care band; occupancy placement itself is C04",
    "C06": "trusted: the independent geometry oracle and its don't-care band (1e-7, circles 0.5 % radial band because shapely discs are 64-gons)",
    "C18": "trusted: the snapshot function (written to be side-effect free) and the fork isolation of exports",
}


def main():
    from simkit.runner import PROP_MODULES

    built = []
    for pid, mod in sorted(PROP_MODULES.items()):
        if os.path.exists(os.path.join(VERIF, mod.replace(".", "/") + ".py")):
            built.append(pid)
    props = [json.loads(l) for l in open(os.path.join(VERIF, "properties.jsonl"))]
    m = {
        "version": 1,
        "setup_cmd": "/venv/bin/python -c \"import commonroad, shapely, lxml, numpy, google.protobuf, matplotlib; print('ok')\"",
        "hooks": {
            "guard": "COMMONROAD_IO_VERIF",
            "enable": "no guarded code exists in /repo: every seam the simulator needs is an existing module attribute (file_writer_xml.datetime, file_writer_protobuf.datetime / open) replaced from /verif at run time; ./check exports COMMONROAD_IO_VERIF=1 for uniformity",
            "baseline_off_cmd": "cd /repo && /venv/bin/python -m pytest -ra -q -p no:cacheprovider --timeout=900 --continue-on-collection-errors",
            "source_commits": [],
            "add_only": True,
        },
        "engines": [{
            "name": "simkit", "path": "simkit/", "serves_properties": built,
            "kind_free_text": "custom deterministic simulation engine: SHA-256 derived PRNG streams from VERIF_SEED, seeded scheduler over generator-based logical clients, JSON op traces, reference models, fault ops (restart, clock jump, planted file, missing directory, torn write, rejected/mid-batch operations), ddmin minimiser, replay files, 16-process batch runner, determinism self-test",
        }],
        "checks": [],
        "notes": "See DESIGN.md. ./check <id> --tier quick|thorough; ./check <id> --replay <file>; ./check --selftest (determinism: hash seeds x worker counts x generate->replay). known_findings.json lists repaired defects (fixed) and open findings; replays/fixed/<id>/ are re-run by every check and must stay quiet.",
        "not_applicable": [],
    }
    for pid in built:
        m["checks"].append({
            "property_id": pid, "quick_cmd": f"./check {pid} --tier quick", "thorough_cmd": f"./check {pid} --tier thorough",
            "evidence_file": f"evidence/{pid}.json", "replay_cmd_template": f"./check {pid} --replay {{path}}",
            "engine": "simkit",
            "level_claimed": {"category": "exploration", "text": TEXT[pid][0], "design_ref": TEXT[pid][1]},
            "level_note": NOTE[pid],
            "technique": "deterministic simulation with fault injection: seeded scheduler over logical clients, reference model / fresh-twin oracle, ddmin-minimised replay",
        })
    for p in props:
        if p["id"] in built:
            continue
        reason = NA.get(p["id"], "simulation target (DESIGN.md section 4); its check is still under construction and therefore not claimed yet")
        m["not_applicable"].append({"property_id": p["id"], "reason": reason})
    with open(os.path.join(VERIF, "MANIFEST.json"), "w") as f:
        json.dump(m, f, indent=1)
    try:
        import jsonschema
        jsonschema.validate(m, json.load(open("/root/.vp/MANIFEST.schema.json")))
        for pid in built:
            ev = os.path.join(VERIF, "evidence", f"{pid}.json")
            if os.path.exists(ev):
                jsonschema.validate(json.load(open(ev)), json.load(open("/root/.vp/EVIDENCE.schema.json")))
        print("MANIFEST valid; claimed:", built)
    except ImportError:
        print("jsonschema not available; wrote MANIFEST for", built)


if __name__ == "__main__":
    main()
