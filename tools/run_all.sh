#!/bin/bash
# run every claimed check (default quick) and print exit code + number of VIOLATION / KNOWN-FINDING lines
cd "$(dirname "$0")/.."
TIER="${1:-quick}"; shift
for p in C06 C07 C09 C10 C11 C15 C18; do
  out=$(./check $p --tier $TIER "$@" 2>&1); rc=$?
  echo "$p exit=$rc violations=$(echo "$out" | grep -c '^VIOLATION') known=$(echo "$out" | grep -c '^KNOWN-FINDING') :: $(echo "$out" | grep ' runs, ' | cut -c1-150)"
  echo "$out" | grep -A2 '^VIOLATION' | cut -c1-300
  echo "$out" | grep 'HARNESS' | head -3
done
