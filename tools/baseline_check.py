"""Run the repository's pinned test suite (guard off) and compare with /root/.vp/BASELINE.json.

usage: /venv/bin/python tools/baseline_check.py [repo_dir]
exit 0 iff every stable_pass test passes.
"""
import json
import os
import subprocess
import sys
import tempfile
import xml.etree.ElementTree as ET

repo = sys.argv[1] if len(sys.argv) > 1 else "/repo"
base = json.load(open("/root/.vp/BASELINE.json"))
stable = set(base["stable_pass"])
with tempfile.TemporaryDirectory(dir="/dev/shm") as d:
    out = os.path.join(d, "j.xml")
    env = dict(os.environ)
    env.pop("COMMONROAD_IO_VERIF", None)
    env["PYTHONPATH"] = repo
    p = subprocess.run(["/venv/bin/python", "-m", "pytest", "-q", "-p", "no:cacheprovider", "--timeout=900",
                        "--continue-on-collection-errors", f"--junitxml={out}"], cwd=repo, env=env,
                       stdout=subprocess.PIPE, stderr=subprocess.STDOUT, text=True)
    passed = set()
    failed = set()
    for tc in ET.parse(out).getroot().iter("testcase"):
        name = f"{tc.get('classname')}::{tc.get('name')}"
        bad = any(ch.tag in ("failure", "error", "skipped") for ch in tc)
        (failed if bad else passed).add(name)
missing = sorted(stable - passed)
print(f"stable_pass={len(stable)} passed_now={len(passed & stable)} missing={len(missing)}")
for m in missing[:40]:
    print("  NOT PASSING:", m)
if missing:
    print(p.stdout[-3000:])
sys.exit(1 if missing else 0)
