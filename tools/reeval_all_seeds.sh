#!/bin/bash
# Re-evaluate every kept seeded change against the current checks (patch + demo are taken from seeded/<id>/).
cd "$(dirname "$0")/.."
for d in seeded/*/; do
  id=$(basename "$d"); prop=${id%%-*}
  # (a seed whose demonstrated violation belongs to another property than the one its author was given: meta.json says)
  [ -f "$d/meta.json" ] && prop=$(/venv/bin/python -c "import json,sys; print(json.load(open(sys.argv[1])).get('property') or sys.argv[2])" "$d/meta.json" "$prop" 2>/dev/null | tail -1)
  tmp=$(mktemp -d /dev/shm/seedsrc.XXXX); cp "$d"/patch.diff "$d"/demo.py "$tmp"/; [ -f "$d/notes.md" ] && cp "$d/notes.md" "$tmp"/
  /venv/bin/python tools/eval_seeded.py "$tmp" "$prop" "$id" --skip-suite 2>&1 | /venv/bin/python -c "
import sys,json
t=sys.stdin.read(); t=t[t.index('{'):]
m=json.loads(t); c=m['checks'][m['property']]
print(m['seed_id'],'confirmed',m['confirmed'],'CAUGHT=',c['caught'],c['signatures'][:1])
"
  rm -rf "$tmp"
done
