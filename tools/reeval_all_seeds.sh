#!/bin/bash
# Re-evaluate every kept seeded change against the current checks (patch + demo are taken from seeded/<id>/).
cd "$(dirname "$0")/.."
for d in seeded/*/; do
  id=$(basename "$d"); prop=${id%%-*}
  tmp=$(mktemp -d /dev/shm/seedsrc.XXXX); cp "$d"/patch.diff "$d"/demo.py "$tmp"/; [ -f "$d/notes.md" ] && cp "$d/notes.md" "$tmp"/
  /venv/bin/python tools/eval_seeded.py "$tmp" "$prop" "$id" --skip-suite 2>&1 | /venv/bin/python -c "
import sys,json
t=sys.stdin.read(); t=t[t.index('{'):]
m=json.loads(t); c=m['checks'][m['property']]
print(m['seed_id'],'confirmed',m['confirmed'],'CAUGHT=',c['caught'],c['signatures'][:1])
"
  rm -rf "$tmp"
done
