"""Prints the markdown table of seeded changes (from seeded/*/meta.json) for DESIGN.md section 10.6."""
import glob
import json
import os

VERIF = os.path.dirname(os.path.dirname(os.path.abspath(__file__)))
rows = []
for m in sorted(glob.glob(os.path.join(VERIF, "seeded", "*", "meta.json"))):
    d = json.load(open(m))
    c = d["checks"].get(d["property"], {})
    notes = os.path.join(os.path.dirname(m), "notes.md")
    first = ""
    if os.path.exists(notes):
        for ln in open(notes):
            ln = ln.strip()
            if ln and not ln.startswith("#"):
                first = ln[:160]
                break
    needs = d.get("needs", first)
    sig = (c.get("signatures") or ["-"])[0]
    mins = (c.get("minimised") or ["-"])[0].replace("minimised: ", "")
    if d.get("obsolete"):
        rows.append(f"| {d['seed_id']} | {d['property']} | {needs} | obsolete: the repair e0589d6 removed the exception "
                    f"path it needs (see meta.json) | was caught | `-` | - |")
        continue
    rows.append(f"| {d['seed_id']} | {d['property']} | {needs} | {'yes' if d.get('confirmed') else 'NO'} | "
                f"{'caught' if c.get('caught') else 'MISSED'} | `{sig}` | {mins} |")
print("| seed | property | what it needs to manifest | confirmed (demo + suite) | quick check | first signature | minimised |")
print("|------|----------|---------------------------|--------------------------|-------------|-----------------|-----------|")
print("\n".join(rows))
