"""Regenerates the seeded-change table in DESIGN.md (section 10.6) and seeded/INDEX.md from seeded/*/meta.json."""
import os
import subprocess
import sys

VERIF = os.path.dirname(os.path.dirname(os.path.abspath(__file__)))
table = subprocess.run([sys.executable, os.path.join(VERIF, "tools", "seed_table.py")], stdout=subprocess.PIPE,
                       text=True, check=True).stdout.strip("\n")
p = os.path.join(VERIF, "DESIGN.md")
lines = open(p).read().split("\n")
start = next(i for i, ln in enumerate(lines) if ln.startswith("| seed | property |"))
end = start
while end < len(lines) and lines[end].startswith("|"):
    end += 1
lines[start:end] = table.split("\n")
open(p, "w").write("\n".join(lines))
with open(os.path.join(VERIF, "seeded", "INDEX.md"), "w") as f:
    f.write("# Seeded changes (written by independent sub-agents, confirmed and evaluated by tools/eval_seeded.py)\n\n")
    f.write(table + "\n")
n = len(table.split("\n")) - 2
print(f"{n} seeds; MISSED rows: {sum(1 for ln in table.split(chr(10)) if '| MISSED |' in ln)}; "
      f"unconfirmed rows: {sum(1 for ln in table.split(chr(10)) if '| NO |' in ln)}")
