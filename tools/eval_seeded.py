"""Confirm a seeded change and run the checks against it.

usage: /venv/bin/python tools/eval_seeded.py <seed_dir> <PROP> <seed_id> [--runs N] [--tier quick]
  <seed_dir> holds patch.diff, demo.py, notes.md (written by an independent sub-agent).
Steps (all in a scratch worktree under /dev/shm, removed afterwards; /repo is never touched):
  1. demo on the unchanged tree -> must exit 0
  2. git apply patch; demo -> must exit non-zero
  3. pinned test suite with the patch (tools/baseline_check.py) -> must still pass
  4. ./check <PROP> against the patched tree -> caught?
Copies the seed into /verif/seeded/<seed_id>/ with meta.json.
"""
import argparse
import json
import os
import shutil
import subprocess
import sys
import time

VERIF = os.path.dirname(os.path.dirname(os.path.abspath(__file__)))


def sh(cmd, **kw):
    return subprocess.run(cmd, stdout=subprocess.PIPE, stderr=subprocess.STDOUT, text=True, **kw)


def main():
    ap = argparse.ArgumentParser()
    ap.add_argument("seed_dir")
    ap.add_argument("prop")
    ap.add_argument("seed_id")
    ap.add_argument("--runs", type=int, default=None)
    ap.add_argument("--also", default="", help="comma separated other properties to run too")
    ap.add_argument("--skip-suite", action="store_true")
    a = ap.parse_args()
    wt = f"/dev/shm/seed-eval-{os.getpid()}"
    rep = wt + "-replays"
    sh(["git", "-C", "/repo", "worktree", "add", "-q", "--detach", wt, "HEAD"])
    meta = {"seed_id": a.seed_id, "property": a.prop, "source": "independent sub-agent, given only the property text",
            "evaluated_at_repo_commit": sh(["git", "-C", "/repo", "rev-parse", "--short", "HEAD"]).stdout.strip()}
    try:
        env = dict(os.environ, PYTHONPATH=wt)
        env.pop("COMMONROAD_IO_VERIF", None)
        demo = os.path.join(a.seed_dir, "demo.py")
        shutil.copy(demo, os.path.join(wt, "_demo.py"))
        r0 = sh(["/venv/bin/python", "_demo.py"], cwd=wt, env=env)
        meta["demo_unchanged_exit"] = r0.returncode
        ap_ = sh(["git", "-C", wt, "apply", os.path.abspath(os.path.join(a.seed_dir, "patch.diff"))])
        meta["patch_applies"] = ap_.returncode == 0
        if ap_.returncode != 0:
            meta["patch_error"] = ap_.stdout[-500:]
        r1 = sh(["/venv/bin/python", "_demo.py"], cwd=wt, env=env)
        meta["demo_patched_exit"] = r1.returncode
        meta["demo_patched_tail"] = [ln for ln in r1.stdout.strip().splitlines() if "WARNING" not in ln][-3:]
        os.remove(os.path.join(wt, "_demo.py"))
        if not a.skip_suite:
            t = sh(["/venv/bin/python", os.path.join(VERIF, "tools", "baseline_check.py"), wt])
            meta["suite_with_patch"] = t.stdout.strip().splitlines()[0] if t.stdout.strip() else "?"
        meta["checks"] = {}
        for prop in [a.prop] + [x for x in a.also.split(",") if x]:
            cmd = [os.path.join(VERIF, "check"), prop, "--tier", "quick", "--no-evidence"]
            if a.runs:
                cmd += ["--runs", str(a.runs)]
            t0 = time.time()
            p = sh(cmd, env=dict(os.environ, VERIF_REPO=wt, VERIF_REPLAY_DIR=rep,
                                 VERIF_STOP_AFTER_VIOLATIONS=os.environ.get("VERIF_STOP_AFTER_VIOLATIONS", "6")))
            sigs = [ln.split("signature:")[1].strip() for ln in p.stdout.splitlines() if "signature:" in ln]
            msgs = [ln.split("message:")[1].strip()[:300] for ln in p.stdout.splitlines() if "message:" in ln]
            mins = [ln.strip() for ln in p.stdout.splitlines() if "minimised:" in ln]
            meta["checks"][prop] = {"cmd": " ".join(cmd[len(cmd) - 4 - (2 if a.runs else 0):]), "exit": p.returncode,
                                    "caught": p.returncode == 1, "signatures": sigs[:5], "first_message": msgs[:1],
                                    "minimised": mins[:2], "wall_s": round(time.time() - t0, 1),
                                    "summary": [ln for ln in p.stdout.splitlines() if " runs, " in ln][-1:]}
        dst = os.path.join(VERIF, "seeded", a.seed_id)
        os.makedirs(dst, exist_ok=True)
        for fn in ("patch.diff", "demo.py", "notes.md"):
            if os.path.exists(os.path.join(a.seed_dir, fn)):
                shutil.copy(os.path.join(a.seed_dir, fn), os.path.join(dst, fn))
        # keep the minimised replay of the catch next to the seed (documentation; needs the patch to fire)
        if os.path.isdir(rep):
            n = 0
            for root, _, files in os.walk(rep):
                for fn in sorted(files)[:2]:
                    shutil.copy(os.path.join(root, fn), os.path.join(dst, f"caught-replay-{n}.json"))
                    n += 1
        old_meta = os.path.join(dst, "meta.json")
        if os.path.exists(old_meta):
            for k in ("needs", "ran", "rebased", "relabelled", "obsolete", "demo_edited"):
                v = json.load(open(old_meta)).get(k)
                if v:
                    meta[k] = v
        if a.skip_suite and os.path.exists(old_meta):
            prev = json.load(open(old_meta))
            if "suite_with_patch" in prev:
                note = " (from the first evaluation of this seed)"
                meta["suite_with_patch"] = prev["suite_with_patch"].replace(note, "") + note
        meta["confirmed"] = bool(meta["demo_unchanged_exit"] == 0 and meta["patch_applies"]
                                 and meta["demo_patched_exit"] != 0
                                 and "missing=0" in meta.get("suite_with_patch", ""))
        with open(os.path.join(dst, "meta.json"), "w") as f:
            json.dump(meta, f, indent=1)
        print(json.dumps(meta, indent=1))
    finally:
        sh(["git", "-C", "/repo", "worktree", "remove", "--force", wt])
        shutil.rmtree(wt, ignore_errors=True)
        shutil.rmtree(rep, ignore_errors=True)


if __name__ == "__main__":
    sys.exit(main())
