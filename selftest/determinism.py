"""Determinism self-test: same batch seed => identical per-run event-log digests, whatever the hash seed
and the worker count, in fresh interpreters; and replaying a generated trace reproduces its digest.

usage: ./check --selftest [C09 C15 ...] [--runs N] [--seeds a,b]
exit 0 iff no divergence; 2 otherwise (a divergence is a harness error, not a property violation).
"""
import argparse
import os
import subprocess
import sys

VERIF = os.path.dirname(os.path.dirname(os.path.abspath(__file__)))


def digests(prop, seed, runs, workers, hashseed):
    env = dict(os.environ)
    env["PYTHONHASHSEED"] = str(hashseed)
    env["VERIF_SEED"] = str(seed)
    p = subprocess.run([sys.executable, "-m", "simkit.cli", prop, "--runs", str(runs), "--workers", str(workers),
                        "--digests", "--no-evidence", "--seed", str(seed)], cwd=VERIF, env=env,
                       stdout=subprocess.PIPE, stderr=subprocess.PIPE, text=True, timeout=3000)
    if p.returncode == 2:
        raise SystemExit(f"harness error in {prop}: {p.stderr[-2000:]}")
    return {ln.split()[1]: ln.split()[2] for ln in p.stdout.splitlines() if ln.startswith("DIGEST ")}


def replay_roundtrip(prop_id, seed, n):
    """generate_and_run(seed_i) and replay(trace_i) must give the same event-log digest."""
    sys.path.insert(0, VERIF)
    import warnings

    warnings.simplefilter("ignore")
    import logging

    logging.disable(logging.CRITICAL)
    from simkit import runner
    from simkit.engine import execute as generate_and_run
    from simkit.engine import execute_replay as replay

    prop = runner.load_prop(prop_id)
    bad = 0
    devnull = open(os.devnull, "w")
    old = sys.stdout
    sys.stdout = devnull
    try:
        for i in range(n):
            s = runner.run_seed(seed, prop_id, i)
            a = generate_and_run(prop, s)
            b = replay(prop, a.universe, a.cfg, a.trace)
            if a.digest != b.digest or b.skipped:
                bad += 1
    finally:
        sys.stdout = old
    return bad


def main():
    ap = argparse.ArgumentParser()
    ap.add_argument("props", nargs="*")
    ap.add_argument("--runs", type=int, default=120)
    ap.add_argument("--seeds", default="0,7")
    a = ap.parse_args()
    sys.path.insert(0, VERIF)
    from simkit.runner import PROP_MODULES

    props = a.props or sorted(PROP_MODULES)
    rc = 0
    for prop in props:
        try:
            __import__(PROP_MODULES[prop])
        except ImportError:
            print(f"{prop}: not built yet, skipped")
            continue
        for seed in [int(x) for x in a.seeds.split(",")]:
            ref = digests(prop, seed, a.runs, 16, 0)
            if len(ref) != a.runs:
                print(f"SELFTEST-FAIL {prop} seed={seed}: expected {a.runs} digests, got {len(ref)}")
                rc = 2
            for workers, hs in ((16, 0), (1, 1), (5, "random"), (16, 12345)):
                other = digests(prop, seed, a.runs, workers, hs)
                diff = [k for k in ref if other.get(k) != ref[k]]
                status = "ok" if not diff else f"DIVERGED in runs {diff[:8]}"
                print(f"{prop} seed={seed} workers={workers} PYTHONHASHSEED={hs}: {len(other)} runs {status}")
                if diff:
                    rc = 2
            bad = replay_roundtrip(prop, seed, min(a.runs, 60))
            print(f"{prop} seed={seed} generate->replay digest round trip: {'ok' if not bad else str(bad) + ' DIVERGED'}")
            if bad:
                rc = 2
    print("SELFTEST", "PASSED" if rc == 0 else "FAILED")
    return rc


if __name__ == "__main__":
    sys.exit(main())
