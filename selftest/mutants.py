"""Sensitivity self-test: apply small breaking edits (one at a time) to a scratch worktree of /repo and confirm
that the quick machinery reports a violation within a bounded number of runs.

usage: /venv/bin/python -m selftest.mutants [--only C09] [--tests] [--runs-scale 1.0]
Writes selftest/mutants_result.json.  Worktrees live under /dev/shm and are removed after each mutant.
/repo itself is never modified.
"""
import argparse
import json
import os
import shutil
import subprocess
import sys
import time

VERIF = os.path.dirname(os.path.dirname(os.path.abspath(__file__)))
S = "commonroad/scenario/scenario.py"
L = "commonroad/scenario/lanelet.py"
P = "commonroad/prediction/prediction.py"
O = "commonroad/scenario/obstacle.py"
G = "commonroad/geometry/shape.py"
WX = "commonroad/common/writer/file_writer_xml.py"
WP = "commonroad/common/writer/file_writer_protobuf.py"
WI = "commonroad/common/writer/file_writer_interface.py"
RX = "commonroad/common/reader/file_reader_xml.py"
GO = "commonroad/planning/goal.py"
TL = "commonroad/scenario/traffic_light.py"

# (property, name, file, old, new, runs)
MUTANTS = [
    ("C09", "light-list-removal-keeps-id", S,
     "                self._id_set.remove(light.traffic_light_id)\n", "                pass\n", 3000),
    ("C09", "generate-forgets-counter", S,
     "            self._id_counter = max(self._id_counter, max_id_used)\n",
     "            self._id_counter = max_id_used\n", 3000),
    ("C09", "lanelet-add-skips-collision-check", S,
     "            self._mark_object_id_as_used(scenario_object.lanelet_id)\n",
     "            self._id_set.add(scenario_object.lanelet_id)\n", 3000),
    ("C09", "sign-list-removal-keeps-id", S,
     "                self._id_set.remove(sign.traffic_sign_id)\n", "                pass\n", 3000),
    ("C09", "phantom-removal-keeps-id", S,
     "            del self._phantom_obstacle[obstacle.obstacle_id]\n            self._id_set.remove(obstacle.obstacle_id)\n",
     "            del self._phantom_obstacle[obstacle.obstacle_id]\n", 3000),
    ("C09", "intersection-single-removal-keeps-incomings", S,
     "        self._id_set.remove(intersection.intersection_id)\n        for inc in intersection.incomings:\n            self._id_set.remove(inc.incoming_id)\n",
     "        self._id_set.remove(intersection.intersection_id)\n", 3000),
    ("C10", "adj-right-not-cleaned", L,
     "            la._adj_right = None if la.adj_right is None or la.adj_right not in existing_ids else la.adj_right\n",
     "            la._adj_right = la.adj_right\n", 4000),
    ("C10", "successors-not-cleaned", L,
     "            la._successor = list(set(la.successor).intersection(existing_ids))\n",
     "            la._successor = list(set(la.successor))\n", 4000),
    ("C10", "stop-line-sign-refs-not-cleaned", L,
     "                la.stop_line._traffic_sign_ref = la.stop_line.traffic_sign_ref.intersection(existing_ids)\n",
     "                pass\n", 4000),
    ("C10", "incoming-successors-left-not-cleaned", L,
     "                inc._successors_left = set(inc.successors_left).intersection(existing_ids)\n",
     "                pass\n", 4000),
    ("C10", "cut-out-skips-reference-cleanup", L,
     "        if cleanup_ids:\n            new_lanelet_network.cleanup_lanelet_references()\n",
     "        if cleanup_ids and shape_input is None:\n            new_lanelet_network.cleanup_lanelet_references()\n", 4000),
    ("C10", "hanging-sign-removed-although-shared", S,
     "            if t.traffic_sign_id in set(traffic_signs_to_delete - traffic_signs_to_save):\n",
     "            if t.traffic_sign_id in set(traffic_signs_to_delete):\n", 4000),
    ("C11", "shape-setter-keeps-occupancies", P,
     "        self._shape = shape\n        self._invalidate_occupancy_set()\n", "        self._shape = shape\n", 1600),
    ("C11", "trajectory-setter-keeps-occupancies", P,
     "        self._trajectory = trajectory\n        self._invalidate_occupancy_set()\n",
     "        self._trajectory = trajectory\n", 1600),
    ("C11", "remove-lanelet-keeps-index", L,
     "            self.cleanup_lanelet_references()\n\n        if rtree:\n            self._create_strtree()\n",
     "            self.cleanup_lanelet_references()\n\n        if rtree and False:\n            self._create_strtree()\n", 1600),
    ("C11", "static-translate-bypasses-setter", O,
     "        self.initial_state = self._initial_state.translate_rotate(translation, angle)\n\n    def occupancy_at_time(self, time_step: int) -> Occupancy:\n",
     "        self._initial_state = self._initial_state.translate_rotate(translation, angle)\n\n    def occupancy_at_time(self, time_step: int) -> Occupancy:\n", 1600),
    ("C11", "history-truncation-off-by-one", O,
     "            self.history = self.history[-max_history_length:]\n",
     "            self.history = self.history[-max_history_length - 1:]\n", 1600),
    ("C11", "scenario-add-lanelet-skips-index", S,
     "            self._lanelet_network.add_lanelet(scenario_object)\n",
     "            self._lanelet_network.add_lanelet(scenario_object, rtree=False)\n", 1600),
    ("C11", "offset-setter-keeps-memo", TL,
     "        self._time_offset = time_offset\n        self._invalidate_cycle_init_timesteps()\n",
     "        self._time_offset = time_offset\n", 1600),
    ("C06", "add-lanelet-default-no-index", L,
     "    def add_lanelet(self, lanelet: Lanelet, rtree: bool = True):\n",
     "    def add_lanelet(self, lanelet: Lanelet, rtree: bool = False):\n", 1200),
    ("C06", "deepcopy-keeps-old-reverse-map", L,
     "        result._create_strtree()\n        # restore\n", "        # restore\n", 1200),
    ("C06", "shape-lookup-without-exact-test", L,
     "            if lanelet_shapely_polygon.intersects(shape.shapely_object):\n", "            if True:\n", 1200),
    ("C06", "polygon-bbox-strict", G,
     "            return all(np.less_equal(self._min, point)) and all(np.less_equal(point, self._max))\n",
     "            return all(np.less(self._min, point)) and all(np.less(point, self._max))\n", 1200),
    ("C06", "add-from-network-skips-index", L,
     "            flag = flag and self.add_lanelet(la, rtree=False)\n        self._create_strtree()\n",
     "            flag = flag and self.add_lanelet(la, rtree=False)\n", 1200),
    ("C06", "unpickle-skips-index", L,
     "        self.__dict__.update(state)\n        self._create_strtree()\n",
     "        self.__dict__.update(state)\n        self._strtee = None\n", 1200),
    ("C07", "xml-reader-static-shape-set-from-centre", RX,
     "            initial_shape_lanelet_ids = set(lanelet_network.find_lanelet_by_shape(rotated_shape))\n            initial_center_lanelet_ids = set(lanelet_network.find_lanelet_by_position([initial_state.position])[0])\n            for l_id in initial_shape_lanelet_ids:\n                lanelet_network.find_lanelet_by_id(l_id).add_static_obstacle_to_lanelet(obstacle_id=obstacle_id)\n",
     "            initial_center_lanelet_ids = set(lanelet_network.find_lanelet_by_position([initial_state.position])[0])\n            initial_shape_lanelet_ids = set(initial_center_lanelet_ids)\n            for l_id in initial_shape_lanelet_ids:\n                lanelet_network.find_lanelet_by_id(l_id).add_static_obstacle_to_lanelet(obstacle_id=obstacle_id)\n", 1600),
    ("C07", "dynamic-removal-forgets-prediction-steps", S,
     "                    lanelet_dict[time_step].discard(obstacle.obstacle_id)\n", "                    pass\n", 1600),
    ("C07", "assigned-range-off-by-one", S,
     "                        time_steps_tmp = range(obs.initial_state.time_step, obs.prediction.final_time_step + 1)\n",
     "                        time_steps_tmp = range(obs.initial_state.time_step, obs.prediction.final_time_step)\n", 1600),
    ("C07", "static-removal-keeps-registry", S,
     "                self.lanelet_network.find_lanelet_by_id(l_id).static_obstacles_on_lanelet.discard(obstacle_id)\n",
     "                pass\n", 1600),
    ("C07", "readd-dynamic-skips-initial-step", S,
     "                lanelet_dict[obstacle.initial_state.time_step].add(obstacle.obstacle_id)\n", "                pass\n", 1600),
    ("C15", "protobuf-message-kept-across-writes", WP,
     "        self._commonroad_msg = commonroad_pb2.CommonRoad()\n\n        self._write_header()\n        self._add_all_objects_from_scenario()\n        self._add_all_planning_problems_from_planning_problem_set()\n",
     "        self._write_header()\n        self._add_all_objects_from_scenario()\n        self._add_all_planning_problems_from_planning_problem_set()\n", 800),
    ("C15", "skip-overwrites", WI,
     "            elif overwrite_existing_file is OverwriteExistingFile.SKIP:\n                overwrite = \"n\"\n",
     "            elif overwrite_existing_file is OverwriteExistingFile.SKIP:\n                overwrite = \"y\"\n", 800),
    ("C15", "write-to-file-forgets-own-precision", WX,
     "        self._root_node = etree.Element(\"commonRoad\")\n        self._apply_decimal_precision()\n\n        self._write_header()\n        self._add_all_objects_from_scenario()\n        self._add_all_planning_problems_from_planning_problem_set()\n",
     "        self._root_node = etree.Element(\"commonRoad\")\n\n        self._write_header()\n        self._add_all_objects_from_scenario()\n        self._add_all_planning_problems_from_planning_problem_set()\n", 800),
    ("C15", "scenario-only-write-keeps-old-root", WX,
     "                print(\"Replace file {}\".format(filename))\n\n        # start from an empty document so that repeated calls do not accumulate elements\n        self._root_node = etree.Element(\"commonRoad\")\n",
     "                print(\"Replace file {}\".format(filename))\n\n", 800),
    ("C18", "goal-check-harmonises-callers-state", GO,
     "        state_new = copy.deepcopy(state)\n", "        state_new = state\n", 640),
    ("C18", "deepcopy-does-not-restore-index", L,
     "        # restore\n        self._create_strtree()\n", "        # restore\n", 640),
    ("C18", "getstate-deletes-from-live-object", L,
     "        state = self.__dict__.copy()\n        del state[\"_strtee\"]\n",
     "        state = self.__dict__\n        del state[\"_strtee\"]\n", 640),
    ("C18", "xml-writer-sorts-predecessors-in-place", WX,
     "        for la in lanelet.predecessor:\n", "        lanelet.predecessor.sort()\n        for la in lanelet.predecessor:\n", 640),
    ("C18", "occupancy-writes-orientation-into-state", P,
     "                state = copy.copy(state)\n", "                pass\n", 640),
]


# Property-PRESERVING edits: refactorings after which every property still holds.  None of them may be reported.
PRESERVING = [
    ("C06", "P-shape-lookup-returns-sorted-ids", L,
     "                res.append(self._get_lanelet_id_by_shapely_polygon(lanelet_shapely_polygon))\n        return res\n",
     "                res.append(self._get_lanelet_id_by_shapely_polygon(lanelet_shapely_polygon))\n        return sorted(res, reverse=True)\n", 1200),
    ("C07", "P-shape-lookup-returns-sorted-ids", L,
     "                res.append(self._get_lanelet_id_by_shapely_polygon(lanelet_shapely_polygon))\n        return res\n",
     "                res.append(self._get_lanelet_id_by_shapely_polygon(lanelet_shapely_polygon))\n        return sorted(res, reverse=True)\n", 3000),
    ("C09", "P-generate-skips-numbers", S,
     "        self._id_counter += 1\n        return self._id_counter\n",
     "        self._id_counter += 3\n        return self._id_counter\n", 4000),
    ("C09", "P-other-error-message", S,
     "            raise ValueError(\"ID %s is already used.\" % object_id)\n        self._id_set.add(object_id)\n",
     "            raise ValueError(\"object id %s is taken\" % object_id)\n        self._id_set.add(object_id)\n", 4000),
    ("C11", "P-occupancies-never-cached", P,
     "    @functools.cached_property\n    def occupancy_set(self)", "    @property\n    def occupancy_set(self)", 1600),
    ("C18", "P-occupancies-never-cached", P,
     "    @functools.cached_property\n    def occupancy_set(self)", "    @property\n    def occupancy_set(self)", 640),
    ("C11", "P-cycle-memo-recomputed-every-time", TL,
     "        if not hasattr(self, \"_cycle_init_timesteps\"):\n", "        if True:\n", 1600),
    ("C10", "P-cleanup-keeps-list-order", L,
     "            la._predecessor = list(set(la.predecessor).intersection(existing_ids))\n",
     "            la._predecessor = [x for x in dict.fromkeys(la.predecessor) if x in existing_ids]\n", 6000),
    ("C15", "P-xml-not-pretty-printed", WX,
     "        if check_validity:\n            # validate xml format\n            self.check_validity_of_commonroad_file(self._dump())\n\n        tree = etree.ElementTree(self._root_node)\n        tree.write(filename, pretty_print=True,",
     "        if check_validity:\n            # validate xml format\n            self.check_validity_of_commonroad_file(self._dump())\n\n        tree = etree.ElementTree(self._root_node)\n        tree.write(filename, pretty_print=False,", 800),
    ("C10", "P-empty-stop-line-refs-become-none", L,
     "                la.stop_line._traffic_sign_ref = la.stop_line.traffic_sign_ref.intersection(existing_ids)\n",
     "                la.stop_line._traffic_sign_ref = la.stop_line.traffic_sign_ref.intersection(existing_ids) or None\n", 6000),
    ("C10", "P-adjacency-flag-kept-after-neighbour-left", L,
     "            la._adj_right_same_direction = (\n                None\n                if la.adj_right_same_direction is None or la.adj_right not in existing_ids\n                else la.adj_right_same_direction\n            )\n",
     "            la._adj_right_same_direction = la.adj_right_same_direction\n", 6000),
    # NOTE: "transform the cached occupancies instead of dropping them" is NOT property preserving on this library:
    # Polygon.rotate_translate_local rotates about the polygon's centroid, so for polygon shapes whose centroid is
    # not the reference point a freshly computed occupancy differs from the rigidly moved old one (C04/C05 territory;
    # tried as a preserving edit, rightly reported by C11, therefore not listed here).
    ("C11", "P-network-index-rebuilt-on-every-lookup", L,
     "        shapely_points = [ShapelyPoint(p) for p in point_list]\n",
     "        self._buffered_polygons = {i: la.polygon.shapely_object for i, la in self._lanelets.items()}\n        self._create_strtree()\n        shapely_points = [ShapelyPoint(p) for p in point_list]\n", 1600),
    ("C09", "P-lanelet-id-freed-before-network-removal", S,
     "            self.lanelet_network.remove_lanelet(la.lanelet_id)\n            self._id_set.remove(la.lanelet_id)\n",
     "            self._id_set.remove(la.lanelet_id)\n            self.lanelet_network.remove_lanelet(la.lanelet_id)\n", 4000),
    ("C07", "P-static-registry-is-rebuilt-set", S,
     "                self.lanelet_network.find_lanelet_by_id(l_id).static_obstacles_on_lanelet.discard(obstacle_id)\n",
     "                la_ = self.lanelet_network.find_lanelet_by_id(l_id)\n                la_.static_obstacles_on_lanelet = {o for o in la_.static_obstacles_on_lanelet if o != obstacle_id}\n", 3000),
]


def sh(cmd, **kw):
    return subprocess.run(cmd, stdout=subprocess.PIPE, stderr=subprocess.STDOUT, text=True, **kw)


def main():
    ap = argparse.ArgumentParser()
    ap.add_argument("--only", default=None)
    ap.add_argument("--tests", action="store_true", help="also run the pinned test suite on each mutant")
    ap.add_argument("--runs-scale", type=float, default=1.0)
    a = ap.parse_args()
    results = []
    todo = [m + (True,) for m in MUTANTS] + [m + (False,) for m in PRESERVING]
    for i, (prop, name, path, old, new, runs, breaking) in enumerate(todo):
        if a.only and a.only not in (prop, name):
            continue
        wt = f"/dev/shm/cr-mut-{os.getpid()}-{i}"
        rep = wt + "-replays"
        sh(["git", "-C", "/repo", "worktree", "add", "-q", "--detach", wt, "HEAD"])
        try:
            f = os.path.join(wt, path)
            src = open(f).read()
            if src.count(old) != 1:
                results.append({"property": prop, "mutant": name, "status": f"NOT-APPLICABLE (pattern occurs {src.count(old)}x)"})
                print(results[-1])
                continue
            open(f, "w").write(src.replace(old, new))
            env = dict(os.environ, VERIF_REPO=wt, VERIF_REPLAY_DIR=rep)
            t0 = time.time()
            p = sh([os.path.join(VERIF, "check"), prop, "--runs", str(int(runs * a.runs_scale)), "--no-evidence"], env=env)
            sigs = [ln.split("signature:")[1].strip() for ln in p.stdout.splitlines() if "signature:" in ln]
            mins = [ln.strip() for ln in p.stdout.splitlines() if "minimised:" in ln]
            r = {"property": prop, "mutant": name, "file": path, "exit": p.returncode, "breaking": breaking,
                 "caught": p.returncode == 1, "signatures": sigs[:4], "minimised": mins[:1],
                 "runs": int(runs * a.runs_scale), "wall_s": round(time.time() - t0, 1)}
            if a.tests:
                t = sh(["/venv/bin/python", os.path.join(VERIF, "tools", "baseline_check.py"), wt])
                r["suite"] = t.stdout.strip().splitlines()[0] if t.stdout.strip() else "?"
            results.append(r)
            print(json.dumps(r))
        finally:
            sh(["git", "-C", "/repo", "worktree", "remove", "--force", wt])
            shutil.rmtree(rep, ignore_errors=True)
            shutil.rmtree(wt, ignore_errors=True)
    out = os.path.join(VERIF, "selftest", "mutants_result.json")
    if not a.only:
        with open(out, "w") as fh:
            json.dump(results, fh, indent=1)
    missed = [r for r in results if r.get("breaking") and r.get("caught") is False]
    false_alarms = [r for r in results if r.get("breaking") is False and r.get("exit") != 0]
    nb = sum(1 for r in results if r.get("breaking"))
    print(f"{nb} breaking mutants, {sum(1 for r in results if r.get('breaking') and r.get('caught'))} caught, "
          f"{len(missed)} missed; {len(results) - nb} preserving edits, {len(false_alarms)} false alarms")
    for r in missed:
        print("MISSED", r["property"], r["mutant"])
    for r in false_alarms:
        print("FALSE-ALARM", r["property"], r["mutant"], r.get("signatures"))
    return 0


if __name__ == "__main__":
    sys.exit(main())
