"""Independent geometric oracle.

Truth is computed from RAW parameters only (vertex arrays, centre + radius, centre + length/width +
orientation) with numpy and with shapely geometry that this module builds itself -- never from the
library's `shapely_object`, `contains_point`, `vertices` of rectangles, or spatial index.

Every verdict is three-valued: True / False / None, None meaning "inside the don't-care band"
(clearance or penetration below EPS; for circles additionally the 0.5 % radial band in which a
64-gon approximation of the disc may legitimately answer either way).
"""
import math

import numpy as np
import shapely
from shapely.geometry import Point as SPoint
from shapely.geometry import Polygon as SPolygon

EPS = 1e-7
CIRCLE_BAND = 0.01  # relative radial band [ (1-CIRCLE_BAND) r , r ]


def lanelet_ring(left, right):
    """right boundary followed by the reversed left boundary"""
    r = np.asarray(right, dtype=float)
    l = np.asarray(left, dtype=float)
    return np.concatenate((r, l[::-1]), axis=0)


def ring_polygon(ring):
    return SPolygon([(float(x), float(y)) for x, y in np.asarray(ring, dtype=float)])


def rect_corners(length, width, center, orientation):
    c, s = math.cos(orientation), math.sin(orientation)
    hl, hw = length / 2.0, width / 2.0
    out = []
    for dx, dy in ((-hl, -hw), (hl, -hw), (hl, hw), (-hl, hw)):
        out.append((center[0] + c * dx - s * dy, center[1] + s * dx + c * dy))
    return out


# --------------------------------------------------------------------- raw shape records
def raw_shape(shape):
    """Extract RAW parameters from a commonroad shape object (attributes only, no derived geometry)."""
    from commonroad.geometry.shape import Circle, Polygon, Rectangle, ShapeGroup

    if isinstance(shape, Rectangle):
        return {"t": "rect", "l": float(shape.length), "w": float(shape.width),
                "c": [float(shape.center[0]), float(shape.center[1])], "o": float(shape.orientation)}
    if isinstance(shape, Circle):
        return {"t": "circ", "r": float(shape.radius), "c": [float(shape.center[0]), float(shape.center[1])]}
    if isinstance(shape, Polygon):
        return {"t": "poly", "v": [[float(x), float(y)] for x, y in np.asarray(shape.vertices)]}
    if isinstance(shape, ShapeGroup):
        return {"t": "group", "shapes": [raw_shape(s) for s in shape.shapes]}
    raise TypeError(type(shape))


def _poly_of(raw):
    if raw["t"] == "rect":
        return SPolygon(rect_corners(raw["l"], raw["w"], raw.get("c", [0.0, 0.0]), raw.get("o", 0.0)))
    if raw["t"] == "poly":
        return SPolygon([(float(x), float(y)) for x, y in raw["v"]])
    raise TypeError(raw["t"])


# --------------------------------------------------------------------- exact (lattice) mode
def on_lattice(values, q=0.25, bound=2.0 ** 20):
    """All numbers are small multiples of q: sums and differences of them are exact in binary floating point."""
    for v in values:
        v = float(v)
        if abs(v) > bound or (v / q) != round(v / q):
            return False
    return True


def lattice_ring(ring):
    return on_lattice([c for pt in np.asarray(ring, dtype=float) for c in pt])


def lattice_raw(raw):
    """Shapes whose exported geometry both sides compute without rounding: axis-parallel rectangles and polygons on
    the lattice."""
    if raw["t"] == "rect":
        return raw.get("o", 0.0) == 0.0 and on_lattice([raw["l"] / 2, raw["w"] / 2] + list(raw.get("c", [0.0, 0.0])))
    if raw["t"] == "poly":
        return on_lattice([c for pt in raw["v"] for c in pt])
    return False


# --------------------------------------------------------------------- point membership
def point_in_ring(poly: SPolygon, ring, p, exact=False):
    """True / False / None for 'polygon (boundary included) contains p'.  exact=True (all coordinates on the
    lattice): no don't-care band, boundary points are decided."""
    x, y = float(p[0]), float(p[1])
    pt = SPoint(x, y)
    if exact:
        return bool(poly.intersects(pt))
    for vx, vy in np.asarray(ring, dtype=float):
        if vx == x and vy == y:
            return True  # exactly a vertex of the ring: decided, boundary counts as contained
    d = poly.exterior.distance(pt)
    if d < EPS:
        return None
    return bool(poly.contains(pt))


def point_in_shape(raw, p):
    """Closed-form membership of a point in a shape given by raw parameters (True / False / None)."""
    x, y = float(p[0]), float(p[1])
    t = raw["t"]
    if t == "circ":
        d = math.hypot(x - raw["c"][0], y - raw["c"][1])
        if abs(d - raw["r"]) < EPS:
            return None
        return d < raw["r"]
    if t == "rect":
        c = raw.get("c", [0.0, 0.0])
        o = raw.get("o", 0.0)
        dx, dy = x - c[0], y - c[1]
        lx = math.cos(o) * dx + math.sin(o) * dy
        ly = -math.sin(o) * dx + math.cos(o) * dy
        mx, my = abs(lx) - raw["l"] / 2.0, abs(ly) - raw["w"] / 2.0
        if abs(mx) < EPS and my < EPS or abs(my) < EPS and mx < EPS:
            return None
        return mx < 0 and my < 0
    if t == "poly":
        poly = _poly_of(raw)
        return point_in_ring(poly, raw["v"], (x, y))
    if t == "group":
        res = [point_in_shape(s, p) for s in raw["shapes"]]
        if any(r is True for r in res):
            return True
        if any(r is None for r in res):
            return None
        return False
    raise TypeError(t)


# --------------------------------------------------------------------- shape / lanelet intersection
def shape_meets_polygon(raw, poly: SPolygon, exact=False):
    """True / False / None for 'shape (closed set) intersects the polygon (closed set)'.  exact=True: the caller
    has established that shape and polygon live on the lattice; touching counts as intersecting and is decided."""
    t = raw["t"]
    if exact and t in ("rect", "poly"):
        return bool(_poly_of(raw).intersects(poly))
    if t == "group":
        res = [shape_meets_polygon(s, poly) for s in raw["shapes"]]
        if any(r is True for r in res):
            return True
        if any(r is None for r in res):
            return None
        return False
    if t == "circ":
        d = poly.distance(SPoint(raw["c"][0], raw["c"][1]))
        r = raw["r"]
        if d > r + EPS:
            return False
        if d < (1.0 - CIRCLE_BAND) * r - EPS:
            return True
        return None
    sp = _poly_of(raw)
    d = sp.distance(poly)
    if d > EPS:
        return False
    # intersecting or touching: decided only if the overlap is robust against an EPS erosion
    if sp.buffer(-EPS).intersects(poly) and poly.buffer(-EPS).intersects(sp):
        return True
    return None


def shape_area(raw):
    t = raw["t"]
    if t == "circ":
        return math.pi * raw["r"] ** 2
    if t == "rect":
        return raw["l"] * raw["w"]
    if t == "poly":
        return _poly_of(raw).area
    if t == "group":
        return shapely.unary_union([_region(s) for s in raw["shapes"]]).area
    raise TypeError(t)


def _region(raw):
    if raw["t"] == "circ":
        return SPoint(raw["c"][0], raw["c"][1]).buffer(raw["r"], 256)
    if raw["t"] == "group":
        return shapely.unary_union([_region(s) for s in raw["shapes"]])
    return _poly_of(raw)


def sample_points(raw, rng=None):
    """Deterministic probe points for a shape: centre, vertices, edge midpoints, bbox corners, rim points."""
    pts = []
    t = raw["t"]
    if t == "group":
        for s in raw["shapes"]:
            pts += sample_points(s)
        return pts
    if t == "circ":
        cx, cy = raw["c"]
        r = raw["r"]
        pts.append((cx, cy))
        for k in range(8):
            a = 2 * math.pi * k / 8 + 0.1
            for f in (0.5, 0.75, 0.95, 1.05, 1.5):
                pts.append((cx + f * r * math.cos(a), cy + f * r * math.sin(a)))
        return pts
    ring = rect_corners(raw["l"], raw["w"], raw.get("c", [0, 0]), raw.get("o", 0.0)) if t == "rect" else \
        [tuple(v) for v in raw["v"]]
    if len(ring) > 1 and ring[0] == ring[-1]:
        ring = ring[:-1]
    cx = sum(p[0] for p in ring) / len(ring)
    cy = sum(p[1] for p in ring) / len(ring)
    pts.append((cx, cy))
    n = len(ring)
    for i in range(n):
        a, b = ring[i], ring[(i + 1) % n]
        pts.append(a)
        m = ((a[0] + b[0]) / 2, (a[1] + b[1]) / 2)
        for f in (0.8, 1.2):  # inside / outside of the edge midpoint (w.r.t. the vertex centroid)
            pts.append((cx + f * (m[0] - cx), cy + f * (m[1] - cy)))
        for f in (0.9, 1.1):
            pts.append((cx + f * (a[0] - cx), cy + f * (a[1] - cy)))
    xs, ys = [p[0] for p in ring], [p[1] for p in ring]
    for bx in (min(xs), max(xs)):
        for by in (min(ys), max(ys)):
            pts.append((bx, by))
    return pts


def compare_sets(got, truth):
    """got: iterable of ids; truth: dict id -> True/False/None.  Returns (wrongly_missing, wrongly_present)."""
    got = set(got)
    missing = sorted(i for i, v in truth.items() if v is True and i not in got)
    extra = sorted(i for i in got if truth.get(i, False) is False)
    return missing, extra


# --------------------------------------------------------------------- open known finding: circle export
_CIRCLE_SCALE = None


def circle_export_scale():
    """Which disc does the library export for Circle(r)?  1.0 = radius r (correct), 0.5 = radius r / 2 (the open
    known finding 'Circle.shapely_object buffers by radius / 2').  Measured once per process on a probe circle."""
    global _CIRCLE_SCALE
    if _CIRCLE_SCALE is None:
        from commonroad.geometry.shape import Circle

        a = float(Circle(2.0, np.array([0.0, 0.0])).shapely_object.area)
        r_eff = math.sqrt(a / math.pi) / 2.0
        _CIRCLE_SCALE = 0.5 if r_eff < 0.75 else 1.0
    return _CIRCLE_SCALE


def exported(raw, scale=None):
    """The raw record of the region the library's exported geometry denotes (circles scaled by `scale`)."""
    scale = circle_export_scale() if scale is None else scale
    if scale == 1.0:
        return raw
    if raw["t"] == "circ":
        return dict(raw, r=raw["r"] * scale)
    if raw["t"] == "group":
        return dict(raw, shapes=[exported(s, scale) for s in raw["shapes"]])
    return raw


def has_circle(raw):
    return raw["t"] == "circ" or (raw["t"] == "group" and any(has_circle(s) for s in raw["shapes"]))
