"""Seeded generators of JSON specs (networks, obstacles, planning problems).  Pure functions of the Rng."""
import json
import math

LANELET_TYPES = ["URBAN", "HIGHWAY", "BUS_LANE", "CROSSWALK", "SIDEWALK", "INTERSECTION"]
ROAD_USERS = ["VEHICLE", "CAR", "BUS", "BICYCLE", "PEDESTRIAN"]
MARKINGS = ["DASHED", "SOLID", "NO_MARKING", "BROAD_SOLID"]
SIGN_IDS = ["MAX_SPEED", "YIELD", "STOP", "PRIORITY", "GREEN_ARROW"]
LIGHT_STATES = ["RED", "YELLOW", "RED_YELLOW", "GREEN", "INACTIVE"]
LIGHT_DIRS = ["RIGHT", "STRAIGHT", "LEFT", "LEFT_STRAIGHT", "STRAIGHT_RIGHT", "LEFT_RIGHT", "ALL"]
OBST_TYPES = ["CAR", "TRUCK", "BUS", "BICYCLE", "PEDESTRIAN", "PARKED_VEHICLE"]


class IdAlloc:
    def __init__(self, rng, lo=1, hi=60, dense=False, zero=0.0):
        self.pool = list(range(lo, hi + 1))
        if not dense:
            rng.shuffle(self.pool)
        if zero and rng.chance(zero):
            # 0 is a legal id (the smallest one); the first objects allocated are lanelets
            self.pool.insert(rng.randrange(0, 3), 0)

    def take(self):
        return self.pool.pop(0)


def _warp(rng, curved, far=0.0, far_range=(800.0, 5000.0)):
    """A smooth injective map of the plane used to bend the grid; shared boundary points stay shared."""
    a = rng.uniform(0.5, 2.5) if curved else 0.0
    b = rng.uniform(12.0, 30.0)
    th = rng.uniform(-math.pi, math.pi) if rng.chance(0.7) else 0.0
    tx, ty = rng.uniform(-30, 30), rng.uniform(-30, 30)
    if far > 0.0 and rng.chance(far):
        tx, ty = tx + rng.choice([-1, 1]) * rng.uniform(*far_range), ty + rng.choice([-1, 1]) * rng.uniform(*far_range)
    c, s = math.cos(th), math.sin(th)

    def f(x, y):
        y2 = y + a * math.sin(x / b)
        return [c * x - s * y2 + tx, s * x + c * y2 + ty]

    return f


def gen_network(rng, rows=None, cols=None, ids=None, curved=None, signs=True, lights=True, intersections=True,
                overlap=None, stop_lines=True, opposite=True, n_pts=None, types=True, extra_links=True, far=0.0,
                lattice=False, far_range=(800.0, 5000.0), loops=0.0, many_pts=0.0):
    """Grid of lanelets: row r+1 lies to the left of row r; lanelets of one row are chained.

    lattice=True: an unwarped, axis-parallel grid whose coordinates are small multiples of 1/2, so that all
    arithmetic on them is exact and tangencies (a shape whose border coincides with a lanelet border) are decidable."""
    rows = rows or rng.randint(1, 3)
    cols = cols or rng.randint(1, 3)
    ids = ids or IdAlloc(rng)
    curved = rng.chance(0.6) if curved is None else curved
    if lattice:
        ox, oy = float(rng.randint(-20, 20)), float(rng.randint(-20, 20))

        def warp(x, y):
            return [x + ox, y + oy]
        L = rng.choice([8.0, 12.0])
        W = rng.choice([2.0, 4.0])
        n_pts = rng.choice([2, 3, 5])
        overlap = False
    else:
        warp = _warp(rng, curved, far, far_range)
        L = rng.uniform(8.0, 16.0)
        W = rng.uniform(2.5, 4.5)
        n_pts = n_pts or rng.randint(2, 5)
        if many_pts > 0.0 and rng.chance(many_pts):
            n_pts = rng.randint(9, 24)  # finely sampled boundaries: past any "more than a handful of vertices" path
    grid = {}
    lanelets = []
    opp_rows = {r for r in range(rows) if opposite and r == rows - 1 and rows > 1 and rng.chance(0.35)}
    for r in range(rows):
        for c in range(cols):
            grid[(r, c)] = ids.take()
    for r in range(rows):
        for c in range(cols):
            xs = [c * L + L * k / (n_pts - 1) for k in range(n_pts)]
            y0 = r * W
            right = [warp(x, y0 - W / 2) for x in xs]
            center = [warp(x, y0) for x in xs]
            left = [warp(x, y0 + W / 2) for x in xs]
            la = {"id": grid[(r, c)], "pred": [], "succ": []}
            opp = r in opp_rows
            if opp:
                la["left"], la["center"], la["right"] = right[::-1], center[::-1], left[::-1]
            else:
                la["left"], la["center"], la["right"] = left, center, right
            nxt, prv = (r, c + 1), (r, c - 1)
            if opp:
                nxt, prv = prv, nxt
            if nxt in grid:
                la["succ"].append(grid[nxt])
            if prv in grid:
                la["pred"].append(grid[prv])
            up, down = (r + 1, c), (r - 1, c)
            # geometric left neighbour is row r+1 (for an opposite-direction row it is row r-1)
            lft, rgt = (down, up) if opp else (up, down)
            if lft in grid:
                la["adjl"] = grid[lft]
                la["adjl_same"] = (lft[0] in opp_rows) == opp
            if rgt in grid:
                la["adjr"] = grid[rgt]
                la["adjr_same"] = (rgt[0] in opp_rows) == opp
            la["lm_left"] = rng.pick(MARKINGS)
            la["lm_right"] = rng.pick(MARKINGS)
            if types:
                la["types"] = sorted(rng.subset(LANELET_TYPES, 0.3))
                la["users_one"] = sorted(rng.subset(ROAD_USERS, 0.3))
                la["users_bi"] = sorted(rng.subset(ROAD_USERS, 0.15))
            la["_rc"] = [r, c]
            lanelets.append(la)
    by_id = {la["id"]: la for la in lanelets}
    # extra fork / merge links between neighbouring rows
    if extra_links and rows > 1 and cols > 1:
        for _ in range(rng.randint(0, 2)):
            r, c = rng.randrange(rows), rng.randrange(cols - 1)
            r2 = r + rng.choice([-1, 1])
            if (r2, c + 1) in grid and r not in opp_rows and r2 not in opp_rows:
                a, b = grid[(r, c)], grid[(r2, c + 1)]
                if b not in by_id[a]["succ"]:
                    by_id[a]["succ"].append(b)
                    by_id[b]["pred"].append(a)
    # closed courses (a roundabout, a race track): the last lanelet of a row leads back into the first one.  Only the
    # topology is closed (the links), which is all the reference-following code looks at.
    if loops and rng.chance(loops):
        for r in range(rows):
            first, last = grid[(r, 0)], grid[(r, cols - 1)]
            if r in opp_rows:
                first, last = last, first
            if first not in by_id[last]["succ"]:
                by_id[last]["succ"].append(first)
                by_id[first]["pred"].append(last)
    # an extra lanelet lying across the grid (overlaps several lanelets, no relations)
    overlap = rng.chance(0.4) if overlap is None else overlap
    if overlap:
        lid = ids.take()
        x0, x1 = rng.uniform(0, L * cols * 0.4), rng.uniform(L * cols * 0.6, L * cols)
        y0, y1 = rng.uniform(-W, 0), rng.uniform((rows - 1) * W, rows * W)
        d = math.hypot(x1 - x0, y1 - y0)
        nx, ny = -(y1 - y0) / d * W / 2, (x1 - x0) / d * W / 2
        pts = [(x0 + (x1 - x0) * k / 2, y0 + (y1 - y0) * k / 2) for k in range(3)]
        la = {"id": lid, "pred": [], "succ": [],
              "left": [warp(x + nx, y + ny) for x, y in pts], "center": [warp(x, y) for x, y in pts],
              "right": [warp(x - nx, y - ny) for x, y in pts], "types": ["CROSSWALK"] if types else [], "_rc": None}
        lanelets.append(la)
        by_id[lid] = la
    net = {"lanelets": lanelets, "signs": [], "lights": [], "intersections": []}
    lan_ids = [la["id"] for la in lanelets]

    def near(lid):
        cpts = by_id[lid]["center"]
        p = cpts[-1]
        return [p[0] + rng.uniform(-1, 1), p[1] + rng.uniform(-1, 1)]

    if signs:
        for _ in range(rng.randint(0, 3)):
            sid = ids.take()
            refs = rng.sample(lan_ids, min(len(lan_ids), rng.randint(1, 3)))
            for lid in refs:
                by_id[lid].setdefault("signs", []).append(sid)
            elems = [{"id": rng.pick(SIGN_IDS), "vals": []}]
            if elems[0]["id"] == "MAX_SPEED":
                elems[0]["vals"] = [str(rng.randint(5, 40))]
            net["signs"].append({"id": sid, "elems": elems, "first": sorted(rng.subset(refs, 0.5)),
                                 "pos": near(refs[0]), "virtual": rng.chance(0.2)})
    if lights:
        for _ in range(rng.randint(0, 3)):
            tid = ids.take()
            refs = rng.sample(lan_ids, min(len(lan_ids), rng.randint(1, 3)))
            for lid in refs:
                by_id[lid].setdefault("lights", []).append(tid)
            cyc = [[rng.pick(LIGHT_STATES[:4]), rng.randint(1, 5)] for _ in range(rng.randint(1, 4))]
            net["lights"].append({"id": tid, "pos": near(refs[0]), "cycle": cyc, "offset": rng.randint(0, 6),
                                  "active": rng.chance(0.8), "direction": rng.pick(LIGHT_DIRS)})
    if stop_lines:
        for la in lanelets:
            if rng.chance(0.35):
                s = la.get("signs", [])
                t = la.get("lights", [])
                la["stop"] = {"start": la["left"][-1], "end": la["right"][-1], "marking": rng.pick(["SOLID", "DASHED"]),
                              "signs": sorted(rng.subset(s, 0.6)) if (s and rng.chance(0.8)) else None,
                              "lights": sorted(rng.subset(t, 0.6)) if (t and rng.chance(0.8)) else None}
    if stop_lines and len(lanelets) >= 2 and rng.chance(0.3):
        # one physical stop line spanning two lanes: two lanelets carry EQUAL stop lines (distinct objects with the
        # same content); the second lanelet references the signs / lights of the line as well
        with_line = [la for la in lanelets if la.get("stop")]
        if with_line:
            a = rng.pick(with_line)
            b = rng.pick([la for la in lanelets if la is not a])
            b["stop"] = json.loads(json.dumps(a["stop"]))
            for key in ("signs", "lights"):
                for x in a["stop"].get(key) or []:
                    if x not in b.setdefault(key, []):
                        b[key].append(x)
    if intersections and len(lan_ids) >= 2:
        for _ in range(rng.randint(0, 2)):
            iid = ids.take()
            incs = []
            for _ in range(rng.randint(1, 3)):
                inc_l = rng.sample(lan_ids, rng.randint(1, min(2, len(lan_ids))))
                succ_pool = [x for x in lan_ids if x not in inc_l] or lan_ids
                inc = {"id": ids.take(), "in": sorted(inc_l),
                       "right": sorted(rng.subset(succ_pool, 0.25)),
                       "straight": sorted(rng.subset(succ_pool, 0.35)),
                       "left": sorted(rng.subset(succ_pool, 0.25))}
                if not (inc["right"] or inc["straight"] or inc["left"]):
                    inc["straight"] = [rng.pick(succ_pool)]
                incs.append(inc)
            if len(incs) > 1 and rng.chance(0.5):
                incs[0]["left_of"] = incs[1]["id"]
            net["intersections"].append({"id": iid, "incomings": incs, "crossings": sorted(rng.subset(lan_ids, 0.2))})
    for la in lanelets:
        la.pop("_rc", None)
        for k in ("signs", "lights"):
            if k in la:
                la[k] = sorted(set(la[k]))
    net["_geom"] = {"L": L, "W": W, "rows": rows, "cols": cols, "lattice": bool(lattice)}
    return net


def lanelet_point(rng, la, inside=True):
    """A point well inside (or well outside) a lanelet, from its centre line."""
    c = la["center"]
    k = rng.randrange(len(c) - 1)
    t = rng.uniform(0.15, 0.85)
    x = c[k][0] + t * (c[k + 1][0] - c[k][0])
    y = c[k][1] + t * (c[k + 1][1] - c[k][1])
    return [x, y]


def lanelet_heading(la, k=0):
    c = la["center"]
    k = min(k, len(c) - 2)
    return math.atan2(c[k + 1][1] - c[k][1], c[k + 1][0] - c[k][0])


def gen_shape(rng, kinds=("rect", "circ", "poly"), scale=1.0, centered=True, offset_p=0.0):
    t = rng.pick(list(kinds))
    if offset_p > 0.0 and t in ("poly", "group") and rng.chance(offset_p):
        # a shape given in coordinates that do not contain its reference point (the origin)
        sh = gen_shape(rng, (t,), scale, centered)
        dx, dy = rng.choice([-1, 1]) * rng.uniform(2.5, 6.0), rng.choice([-1, 1]) * rng.uniform(2.5, 6.0)
        return _shift(sh, dx, dy)
    if t == "rect":
        return {"t": "rect", "l": rng.uniform(1.0, 5.0) * scale, "w": rng.uniform(0.6, 2.2) * scale}
    if t == "circ":
        return {"t": "circ", "r": rng.uniform(0.3, 2.0) * scale}
    if t == "poly" and rng.chance(0.25):
        # a non-convex outline (U / L shape: a vehicle with a trailer turning, a building with a yard); for a thin
        # U the centroid lies in the notch, outside the polygon itself
        a, b = rng.uniform(1.5, 3.5) * scale, rng.uniform(1.5, 3.5) * scale
        w = rng.uniform(0.25, 0.6) * scale
        if rng.chance(0.6):
            v = [[-a, -b], [a, -b], [a, b], [a - w, b], [a - w, -b + w], [-a + w, -b + w], [-a + w, b], [-a, b]]
        else:
            v = [[-a, -b], [a, -b], [a, -b + w], [-a + w, -b + w], [-a + w, b], [-a, b]]
        for _ in range(rng.randrange(4)):  # open towards any of the four sides
            v = [[-y, x] for x, y in v]
        if rng.chance(0.5):
            # given relative to its centroid (which, for a thin U / L, lies outside the outline): the reference point of
            # the placed shape is then NOT on the shape
            cx = sum(p[0] for p in v) / len(v)
            cy = sum(p[1] for p in v) / len(v)
            v = [[x - cx, y - cy] for x, y in v]
        return {"t": "poly", "v": v}
    if t == "poly":
        n = rng.randint(3, 6)
        r = rng.uniform(0.8, 2.5) * scale
        angs = sorted(rng.uniform(0, 2 * math.pi) for _ in range(n))
        # enforce a proper convex-ish ring: spread the angles
        angs = [2 * math.pi * k / n + rng.uniform(-0.3, 0.3) / n * 2 for k in range(n)]
        return {"t": "poly", "v": [[r * rng.uniform(0.7, 1.0) * math.cos(a), r * rng.uniform(0.7, 1.0) * math.sin(a)]
                                   for a in angs]}
    if t == "group":
        shapes = [gen_shape(rng, ("rect", "circ", "poly"), scale) for _ in range(rng.randint(1, 3))]
        if len(shapes) > 1 and rng.chance(0.5):
            # members that lie apart from each other (a convoy, scattered debris): what one member is near to says
            # nothing about the others
            shapes = [shapes[0]] + [_shift(sh, rng.uniform(-9.0, 9.0) * scale, rng.uniform(-9.0, 9.0) * scale)
                                    for sh in shapes[1:]]
            if rng.chance(0.5):
                shapes.reverse()
        return {"t": "group", "shapes": shapes}
    raise ValueError(t)


def gen_obstacle(rng, oid, net, role=None, horizon=None, shape_kinds=("rect", "circ", "poly"), t0=None,
                 state_cls=None, on_road=0.8, p_stand=0.0, interval_steps=0.0, offset_p=0.0, shuffle_occ=0.0,
                 long_horizon=0.0):
    role = role or rng.weighted(["static", "dynamic", "dynamic_nopred", "dynamic_set", "env", "phantom"],
                                [3, 4, 1, 1, 1, 1])
    lanelets = net["lanelets"]
    la = rng.pick(lanelets) if lanelets else None
    if la is not None and rng.chance(on_road):
        pos = lanelet_point(rng, la)
        ori = lanelet_heading(la) + rng.uniform(-0.4, 0.4)
    else:
        pos = [rng.uniform(-60, 60), rng.uniform(-60, 60)]
        ori = rng.uniform(-3.1, 3.1)
    ori = math.atan2(math.sin(ori), math.cos(ori))
    t0 = rng.randint(0, 3) if t0 is None else t0
    if role == "env":
        sh = gen_shape(rng, ("rect", "circ", "poly"), 2.0)
        sh = _place(sh, pos, ori)
        return {"id": oid, "role": "env", "type": "BUILDING", "shape": sh}
    horizon = rng.randint(1, 6) if horizon is None else horizon
    if long_horizon > 0.0 and rng.chance(long_horizon):
        horizon = rng.randint(9, 30)  # predictions of tens of steps: past any batch size / size threshold
    if role == "phantom":
        occ = [{"t": t0 + k, "shape": _place(gen_shape(rng, ("rect", "circ", "poly")),
                                             [pos[0] + 1.5 * k, pos[1]], ori)} for k in range(horizon)]
        if interval_steps > 0.0 and rng.chance(interval_steps):
            for k, o in enumerate(occ):  # occupancies valid for time intervals [t, t+1], [t+2, t+3], ...
                o["t"] = {"iv": [t0 + 2 * k, t0 + 2 * k + 1]}
        if shuffle_occ > 0.0 and len(occ) > 1 and rng.chance(shuffle_occ):
            rng.shuffle(occ)  # the occupancies of a set-based prediction need not be listed chronologically
        return {"id": oid, "role": "phantom", "pred": {"kind": "set", "t0": t0, "occ": occ}}
    shape = gen_shape(rng, shape_kinds, offset_p=offset_p)
    init = {"t": t0, "pos": pos, "ori": ori, "vel": rng.uniform(0, 12), "acc": rng.uniform(-1, 1),
            "yaw": rng.uniform(-0.2, 0.2), "slip": rng.uniform(-0.05, 0.05)}
    ob = {"id": oid, "shape": shape, "init": init, "type": rng.pick(OBST_TYPES)}
    if rng.chance(0.3):
        ob["signal"] = {"time_step": t0, "horn": rng.chance(0.3), "indicator_left": rng.chance(0.3),
                        "indicator_right": rng.chance(0.3), "braking_lights": rng.chance(0.3),
                        "hazard_warning_lights": False, "flashing_blue_lights": False}
    ob["signal_series"] = []  # the protobuf writer iterates the series: None is C02's business, not ours
    if role not in ("static",) and rng.chance(0.25):
        # signal states for the following time steps (from the initial step on if there is no initial signal state)
        first = t0 + 1 if "signal" in ob else t0
        ob["signal_series"] = [{"time_step": first + k, "horn": False, "indicator_left": rng.chance(0.5),
                                "indicator_right": False, "braking_lights": rng.chance(0.5),
                                "hazard_warning_lights": False, "flashing_blue_lights": False}
                               for k in range(rng.randint(1, 3))]
    if role == "static":
        ob["role"] = "static"
        ob["type"] = "PARKED_VEHICLE"
        return ob
    ob["role"] = "dynamic"
    if role == "dynamic_nopred":
        ob["pred"] = None
        return ob
    v = rng.uniform(0.5, 3.0)
    dth = rng.uniform(-0.15, 0.15)
    if p_stand > 0.0 and rng.chance(p_stand):
        v = 0.0  # a vehicle standing still (same position at consecutive time steps) that turns on the spot
        dth = rng.uniform(-0.9, 0.9)
    if role == "dynamic_set":
        occ = []
        x, y, th = pos[0], pos[1], ori
        for k in range(1, horizon + 1):
            th = math.atan2(math.sin(th + dth), math.cos(th + dth))  # keep the angle a valid orientation
            x += v * math.cos(th)
            y += v * math.sin(th)
            occ.append({"t": t0 + k, "shape": _place(gen_shape(rng, ("rect", "poly")), [x, y], th)})
        if interval_steps > 0.0 and rng.chance(interval_steps):
            for k, o in enumerate(occ):
                o["t"] = {"iv": [t0 + 1 + 2 * k, t0 + 2 + 2 * k]}
        if shuffle_occ > 0.0 and len(occ) > 1 and rng.chance(shuffle_occ):
            rng.shuffle(occ)
        ob["pred"] = {"kind": "set", "t0": t0 + 1, "occ": occ}
        return ob
    cls = state_cls or rng.weighted(["ks", "st", "custom"], [5, 2, 1])
    states = []
    x, y, th = pos[0], pos[1], ori
    for k in range(1, horizon + 1):
        th = math.atan2(math.sin(th + dth), math.cos(th + dth))
        x += v * math.cos(th)
        y += v * math.sin(th)
        st = {"cls": cls, "t": t0 + k, "pos": [x, y], "ori": th, "vel": v * 10}
        if cls == "ks":
            st["steer"] = rng.uniform(-0.3, 0.3)
        if cls == "st":
            st["steer"] = rng.uniform(-0.3, 0.3)
            st["yaw"] = dth * 10
            st["slip"] = rng.uniform(-0.05, 0.05)
        if cls == "custom":
            st["acc"] = rng.uniform(-1, 1)
        states.append(st)
    ob["pred"] = {"kind": "traj", "states": states}
    return ob


def _shift(shape, dx, dy):
    s = dict(shape)
    if s["t"] == "poly":
        s["v"] = [[x + dx, y + dy] for x, y in s["v"]]
    elif s["t"] in ("rect", "circ"):
        c = s.get("c", [0.0, 0.0])
        s["c"] = [c[0] + dx, c[1] + dy]
    elif s["t"] == "group":
        s["shapes"] = [_shift(x, dx, dy) for x in s["shapes"]]
    return s


def _place(shape, pos, ori):
    """Give a shape spec an absolute pose (used for occupancies / environment obstacles)."""
    s = dict(shape)
    if s["t"] == "rect":
        s["c"] = list(pos)
        s["o"] = ori
    elif s["t"] == "circ":
        s["c"] = list(pos)
    elif s["t"] == "poly":
        c, sn = math.cos(ori), math.sin(ori)
        s["v"] = [[pos[0] + c * x - sn * y, pos[1] + sn * x + c * y] for x, y in s["v"]]
    elif s["t"] == "group":
        s["shapes"] = [_place(x, pos, ori) for x in s["shapes"]]
    return s


def gen_planning_problem(rng, pid, net, with_lanelet_goal=True):
    lanelets = net["lanelets"]
    la = rng.pick(lanelets)
    pos = lanelet_point(rng, la)
    init = {"t": 0, "pos": pos, "ori": lanelet_heading(la), "vel": rng.uniform(0, 10), "acc": 0.0, "yaw": 0.0,
            "slip": 0.0}
    goals = []
    goal_lanelets = {}
    for gi in range(rng.randint(1, 2)):
        g = {"cls": "custom", "t": {"iv": [rng.randint(5, 10), rng.randint(11, 30)]}}
        r = rng.random()
        if r < 0.4:
            gl = rng.pick(lanelets)
            g["pos"] = _place({"t": "rect", "l": rng.uniform(2, 6), "w": rng.uniform(2, 4)}, lanelet_point(rng, gl),
                              lanelet_heading(gl))
        elif r < 0.6:
            gl = rng.pick(lanelets)
            g["pos"] = _place({"t": "circ", "r": rng.uniform(1, 3)}, lanelet_point(rng, gl), 0.0)
        elif r < 0.85 and with_lanelet_goal:
            # (in any order: the table is the caller's list, nothing says it is sorted)
            goal_lanelets[gi] = rng.sample([x["id"] for x in lanelets], rng.randint(1, min(2, len(lanelets))))
            by_id = {x["id"]: x for x in lanelets}
            g["pos"] = {"t": "group", "shapes": [{"t": "poly", "v": by_id[i]["right"] + by_id[i]["left"][::-1]}
                                                 for i in goal_lanelets[gi]]}
        if rng.chance(0.5):
            a = rng.uniform(-3.0, 2.0)
            g["ori"] = {"aiv": [a, a + rng.uniform(0.1, 1.0)]}
        if rng.chance(0.5):
            a = rng.uniform(0, 10)
            g["vel"] = {"iv": [a, a + rng.uniform(0.5, 5)]}
        goals.append(g)
    return {"id": pid, "init": init, "goals": goals, "goal_lanelets": goal_lanelets or None}
