"""Abstraction functions: read real commonroad objects through public accessors into plain data.

They are written to be free of side effects on the objects they look at: no `occupancy_set`, no
`lanelet.distance`, no `shapely_object`, no library `__eq__`/`__hash__`.
"""
from commonroad.prediction.prediction import SetBasedPrediction, TrajectoryPrediction


def inventory(scenario, pps=None):
    """ids per object kind, number of trajectory states / occupancies per obstacle, planning problems."""
    net = scenario.lanelet_network
    inv = {
        "lanelets": sorted(la.lanelet_id for la in net.lanelets),
        "signs": sorted(s.traffic_sign_id for s in net.traffic_signs),
        "lights": sorted(s.traffic_light_id for s in net.traffic_lights),
        "intersections": sorted((i.intersection_id, tuple(sorted(inc.incoming_id for inc in i.incomings)))
                                for i in net.intersections),
        "static": sorted(o.obstacle_id for o in scenario.static_obstacles),
        "env": sorted(o.obstacle_id for o in scenario.environment_obstacle),
        "phantom": sorted((o.obstacle_id, len(o.prediction.occupancy_set) if o.prediction is not None else -1)
                          for o in scenario.phantom_obstacle),
    }
    dyn = []
    for o in scenario.dynamic_obstacles:
        p = o.prediction
        if p is None:
            dyn.append((o.obstacle_id, "none", 0))
        elif isinstance(p, TrajectoryPrediction):
            dyn.append((o.obstacle_id, "traj", len(p.trajectory.state_list)))
        elif isinstance(p, SetBasedPrediction):
            dyn.append((o.obstacle_id, "set", len(p.occupancy_set)))
    inv["dynamic"] = sorted(dyn)
    if pps is not None:
        inv["planning_problems"] = sorted((pid, len(pp.goal.state_list))
                                          for pid, pp in pps.planning_problem_dict.items())
    return inv


# ------------------------------------------------------------------ descriptors (plain data) and tolerant comparison
import math  # noqa: E402

import numpy as np  # noqa: E402

from commonroad.common.util import AngleInterval, Interval  # noqa: E402
from commonroad.geometry.shape import Circle, Polygon, Rectangle, Shape, ShapeGroup  # noqa: E402


def shape_desc(s):
    if s is None:
        return None
    if isinstance(s, Rectangle):
        return ["rect", float(s.length), float(s.width), float(s.center[0]), float(s.center[1]),
                ("ang", float(s.orientation))]
    if isinstance(s, Circle):
        return ["circ", float(s.radius), float(s.center[0]), float(s.center[1])]
    if isinstance(s, Polygon):
        return ["poly", [[float(x) for x in v] for v in np.asarray(s.vertices).tolist()]]
    if isinstance(s, ShapeGroup):
        return ["group", [shape_desc(x) for x in s.shapes]]
    return ["?", type(s).__name__]


def value_desc(v):
    if v is None or isinstance(v, (bool, str)):
        return v
    if isinstance(v, AngleInterval):
        return ["aiv", float(v.start), float(v.end)]
    if isinstance(v, Interval):
        return ["iv", float(v.start), float(v.end)]
    if isinstance(v, Shape):
        return shape_desc(v)
    if isinstance(v, np.ndarray):
        return [float(x) for x in v.tolist()]
    if isinstance(v, (int, np.integer)):
        return int(v)
    if isinstance(v, (float, np.floating)):
        return float(v)
    if isinstance(v, (list, tuple)):
        return [value_desc(x) for x in v]
    if isinstance(v, (set, frozenset)):
        return sorted(value_desc(x) for x in v)
    return ["?", type(v).__name__]


def state_desc(st):
    """class name + every attribute the state object has (in its own order) + values."""
    if st is None:
        return None
    out = [type(st).__name__]
    for a in st.attributes:
        v = getattr(st, a)
        if a == "orientation" and isinstance(v, (float, int)) and not isinstance(v, bool):
            out.append([a, ("ang", float(v))])
        else:
            out.append([a, value_desc(v)])
    return out


def occ_desc(occ):
    if occ is None:
        return None
    return [value_desc(occ.time_step), shape_desc(occ.shape)]


def approx_equal(a, b, tol=1e-9):
    """Structural equality; floats within tol (relative to magnitude), ('ang', x) modulo 2 pi."""
    if isinstance(a, tuple) and isinstance(b, tuple) and len(a) == 2 and a[0] == "ang" and b[0] == "ang":
        d = (a[1] - b[1] + math.pi) % (2 * math.pi) - math.pi
        return abs(d) <= tol * 10
    if isinstance(a, bool) or isinstance(b, bool) or a is None or b is None or isinstance(a, str) or isinstance(b, str):
        return a == b and type(a) is type(b)
    if isinstance(a, float) or isinstance(b, float):
        if not isinstance(a, (int, float)) or not isinstance(b, (int, float)):
            return False
        return abs(a - b) <= tol * max(1.0, abs(a), abs(b))
    if isinstance(a, int) and isinstance(b, int):
        return a == b
    if isinstance(a, (list, tuple)) and isinstance(b, (list, tuple)):
        return len(a) == len(b) and all(approx_equal(x, y, tol) for x, y in zip(a, b))
    if isinstance(a, dict) and isinstance(b, dict):
        return a.keys() == b.keys() and all(approx_equal(a[k], b[k], tol) for k in a)
    return a == b
