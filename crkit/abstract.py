"""Abstraction functions: read real commonroad objects through public accessors into plain data.

They are written to be free of side effects on the objects they look at: no `occupancy_set`, no
`lanelet.distance`, no `shapely_object`, no library `__eq__`/`__hash__`.
"""
from commonroad.prediction.prediction import SetBasedPrediction, TrajectoryPrediction


def inventory(scenario, pps=None):
    """ids per object kind, number of trajectory states / occupancies per obstacle, planning problems."""
    net = scenario.lanelet_network
    inv = {
        "lanelets": sorted(la.lanelet_id for la in net.lanelets),
        "signs": sorted(s.traffic_sign_id for s in net.traffic_signs),
        "lights": sorted(s.traffic_light_id for s in net.traffic_lights),
        "intersections": sorted((i.intersection_id, tuple(sorted(inc.incoming_id for inc in i.incomings)))
                                for i in net.intersections),
        "static": sorted(o.obstacle_id for o in scenario.static_obstacles),
        "env": sorted(o.obstacle_id for o in scenario.environment_obstacle),
        "phantom": sorted((o.obstacle_id, len(o.prediction.occupancy_set) if o.prediction is not None else -1)
                          for o in scenario.phantom_obstacle),
    }
    dyn = []
    for o in scenario.dynamic_obstacles:
        p = o.prediction
        if p is None:
            dyn.append((o.obstacle_id, "none", 0))
        elif isinstance(p, TrajectoryPrediction):
            dyn.append((o.obstacle_id, "traj", len(p.trajectory.state_list)))
        elif isinstance(p, SetBasedPrediction):
            dyn.append((o.obstacle_id, "set", len(p.occupancy_set)))
    inv["dynamic"] = sorted(dyn)
    if pps is not None:
        inv["planning_problems"] = sorted((pid, len(pp.goal.state_list))
                                          for pid, pp in pps.planning_problem_dict.items())
    return inv
