"""JSON spec -> real commonroad objects, through the public constructors only.

The specs are plain JSON so that a replay file is self-contained and survives generator changes.
"""
import numpy as np

from commonroad.common.util import AngleInterval, Interval
from commonroad.geometry.shape import Circle, Polygon, Rectangle, ShapeGroup
from commonroad.planning.goal import GoalRegion
from commonroad.planning.planning_problem import PlanningProblem, PlanningProblemSet
from commonroad.prediction.prediction import Occupancy, SetBasedPrediction, TrajectoryPrediction
from commonroad.scenario.intersection import Intersection, IntersectionIncomingElement
from commonroad.scenario.lanelet import Lanelet, LaneletNetwork, LaneletType, LineMarking, MapInformation, RoadUser, StopLine
from commonroad.scenario.obstacle import (
    DynamicObstacle,
    EnvironmentObstacle,
    ObstacleType,
    PhantomObstacle,
    SignalState,
    StaticObstacle,
)
from commonroad.scenario.scenario import Location, Scenario, ScenarioID, Tag
from commonroad.scenario.state import CustomState, InitialState, KSState, PMState, STState
from commonroad.scenario.traffic_light import (
    TrafficLight,
    TrafficLightCycle,
    TrafficLightCycleElement,
    TrafficLightDirection,
    TrafficLightState,
)
from commonroad.scenario.traffic_sign import TrafficSign, TrafficSignElement, TrafficSignIDGermany
from commonroad.scenario.trajectory import Trajectory


def arr(v):
    return np.array(v, dtype=float)


# ---------------------------------------------------------------- shapes
def build_shape(s):
    t = s["t"]
    if t == "rect":
        return Rectangle(float(s["l"]), float(s["w"]), arr(s.get("c", [0.0, 0.0])), float(s.get("o", 0.0)))
    if t == "circ":
        return Circle(float(s["r"]), arr(s.get("c", [0.0, 0.0])))
    if t == "poly":
        return Polygon(arr(s["v"]))
    if t == "group":
        return ShapeGroup([build_shape(x) for x in s["shapes"]])
    raise ValueError(t)


# ---------------------------------------------------------------- states
_STATE_FIELDS = {
    "ori": "orientation", "vel": "velocity", "acc": "acceleration", "yaw": "yaw_rate", "slip": "slip_angle",
    "steer": "steering_angle", "vy": "velocity_y",
}


def _val(v):
    """number | {"iv":[a,b]} interval | {"aiv":[a,b]} angle interval | shape spec"""
    if isinstance(v, dict):
        if "iv" in v:
            return Interval(v["iv"][0], v["iv"][1])
        if "aiv" in v:
            return AngleInterval(v["aiv"][0], v["aiv"][1])
        return build_shape(v)
    return v


def build_state(s):
    cls = s.get("cls", "ks")
    kw = {"time_step": _val(s["t"]) if isinstance(s["t"], dict) else int(s["t"])}
    if "pos" in s:
        kw["position"] = _val(s["pos"]) if isinstance(s["pos"], dict) else arr(s["pos"])
    for k, name in _STATE_FIELDS.items():
        if k in s:
            kw[name] = _val(s[k])
    if cls == "initial":
        return InitialState(**kw)
    if cls == "ks":
        return KSState(**kw)
    if cls == "st":
        return STState(**kw)
    if cls == "pm":
        return PMState(**kw)
    if cls == "custom":
        for k, v in s.get("extra", {}).items():
            kw[k] = v
        return CustomState(**kw)
    raise ValueError(cls)


def build_signal(s):
    if s is None:
        return None
    return SignalState(**s)


# ---------------------------------------------------------------- network elements
def build_stop_line(s):
    if s is None:
        return None
    return StopLine(
        arr(s["start"]), arr(s["end"]), LineMarking[s.get("marking", "SOLID")],
        None if s.get("signs") is None else set(s["signs"]),
        None if s.get("lights") is None else set(s["lights"]),
    )


def build_lanelet(s):
    return Lanelet(
        left_vertices=arr(s["left"]), center_vertices=arr(s["center"]), right_vertices=arr(s["right"]),
        lanelet_id=int(s["id"]),
        predecessor=list(s.get("pred", [])), successor=list(s.get("succ", [])),
        adjacent_left=s.get("adjl"), adjacent_left_same_direction=s.get("adjl_same"),
        adjacent_right=s.get("adjr"), adjacent_right_same_direction=s.get("adjr_same"),
        line_marking_left_vertices=LineMarking[s.get("lm_left", "NO_MARKING")],
        line_marking_right_vertices=LineMarking[s.get("lm_right", "NO_MARKING")],
        stop_line=build_stop_line(s.get("stop")),
        lanelet_type={LaneletType[t] for t in s.get("types", [])},
        user_one_way={RoadUser[u] for u in s.get("users_one", [])},
        user_bidirectional={RoadUser[u] for u in s.get("users_bi", [])},
        traffic_signs=set(s.get("signs", [])), traffic_lights=set(s.get("lights", [])),
    )


def build_sign(s):
    elems = [TrafficSignElement(TrafficSignIDGermany[e["id"]], list(e.get("vals", []))) for e in s.get("elems", [])]
    pos = None if ("pos" in s and s["pos"] is None) else arr(s.get("pos", [0.0, 0.0]))  # None: no position given
    return TrafficSign(int(s["id"]), elems, set(s.get("first", [])), pos, bool(s.get("virtual", False)))


def build_cycle(c, offset=0, active=True):
    return TrafficLightCycle([TrafficLightCycleElement(TrafficLightState[n], int(d)) for n, d in c],
                             time_offset=int(offset), active=bool(active))


def build_light(s):
    cycle = None
    if s.get("cycle") is not None:
        cycle = build_cycle(s["cycle"], s.get("offset", 0), s.get("cycle_active", True))
    pos = None if ("pos" in s and s["pos"] is None) else arr(s.get("pos", [0.0, 0.0]))
    return TrafficLight(int(s["id"]), pos, cycle,
                        active=bool(s.get("active", True)),
                        direction=TrafficLightDirection[s.get("direction", "ALL")])


def build_incoming(s):
    return IntersectionIncomingElement(
        int(s["id"]), set(s.get("in", [])), set(s.get("right", [])), set(s.get("straight", [])),
        set(s.get("left", [])), s.get("left_of"))


def build_intersection(s):
    return Intersection(int(s["id"]), [build_incoming(i) for i in s["incomings"]], set(s.get("crossings", [])))


def build_network(s):
    """s: {"lanelets": [...], "signs": [...], "lights": [...], "intersections": [...]}"""
    info = s.get("info")
    if s.get("lanelets"):
        net = LaneletNetwork(MapInformation() if not info else MapInformation(
            map_id=info.get("map_id", "map_id"), author=info.get("author", "author"),
            affiliation=info.get("affiliation", "affiliation"), source=info.get("source", "source"),
            licence_name=info.get("licence_name", "licence_name")))
    else:
        net = LaneletNetwork.create_from_lanelet_list([])  # a map without lanelets (as the readers build it)
    for la in s.get("lanelets", []):
        net.add_lanelet(build_lanelet(la))
    for sg in s.get("signs", []):
        net.add_traffic_sign(build_sign(sg), set())
    for lt in s.get("lights", []):
        net.add_traffic_light(build_light(lt), set())
    for it in s.get("intersections", []):
        net.add_intersection(build_intersection(it))
    return net


# ---------------------------------------------------------------- obstacles
def build_prediction(p, default_shape):
    if p is None:
        return None
    if p["kind"] == "traj":
        states = [build_state(x) for x in p["states"]]
        shape = build_shape(p["shape"]) if "shape" in p else default_shape
        return TrajectoryPrediction(Trajectory(states[0].time_step, states), shape)
    if p["kind"] == "set":
        occ = [Occupancy(_val(o["t"]) if isinstance(o["t"], dict) else int(o["t"]), build_shape(o["shape"]))
               for o in p["occ"]]
        return SetBasedPrediction(int(p["t0"]), occ)
    raise ValueError(p["kind"])


def build_obstacle(s):
    role = s["role"]
    if role == "env":
        return EnvironmentObstacle(int(s["id"]), ObstacleType[s.get("type", "BUILDING")], build_shape(s["shape"]))
    if role == "phantom":
        return PhantomObstacle(int(s["id"]), build_prediction(s.get("pred"), None))
    shape = build_shape(s["shape"])
    init = build_state(dict(s["init"], cls="initial"))
    sig = build_signal(s.get("signal"))
    series = [build_signal(x) for x in s["signal_series"]] if s.get("signal_series") is not None else None
    if role == "static":
        return StaticObstacle(int(s["id"]), ObstacleType[s.get("type", "PARKED_VEHICLE")], shape, init,
                              initial_signal_state=sig, signal_series=series)
    if role == "dynamic":
        return DynamicObstacle(int(s["id"]), ObstacleType[s.get("type", "CAR")], shape, init,
                               build_prediction(s.get("pred"), shape), initial_signal_state=sig,
                               signal_series=series)
    raise ValueError(role)


# ---------------------------------------------------------------- scenario / planning problems
def build_scenario_id(s=None):
    s = s or {}
    return ScenarioID(cooperative=s.get("coop", False), country_id=s.get("country", "ZAM"),
                      map_name=s.get("map", "Sim"), map_id=s.get("map_id", 1),
                      configuration_id=s.get("conf", 1), obstacle_behavior=s.get("beh", "T"),
                      prediction_id=s.get("pred", 1))


def build_scenario(s):
    shared = {}
    sc = Scenario(dt=float(s.get("dt", 0.1)), scenario_id=build_scenario_id(s.get("sid")),
                  author=s.get("author", "sim"), tags={Tag[t] for t in s.get("tags", ["URBAN"])},
                  affiliation=s.get("affiliation", "verif"), source=s.get("source", "generated"),
                  location=Location())
    if "network" in s:
        sc.add_objects(build_network(s["network"]))
    for o in s.get("obstacles", []):
        ob = build_obstacle(o)
        # "share_states_with": the caller built two trajectories from one list of state objects
        src = o.get("share_states_with")
        if src is not None and src in shared and getattr(ob, "prediction", None) is not None:
            other = shared[src]
            ob.prediction = TrajectoryPrediction(Trajectory(other.initial_time_step, other.state_list),
                                                 ob.prediction.shape)
            ob.initial_state.time_step = other.initial_time_step - 1
        if hasattr(ob, "prediction") and isinstance(getattr(ob, "prediction", None), TrajectoryPrediction):
            shared[o["id"]] = ob.prediction.trajectory
        sc.add_objects(ob)
    return sc


def build_goal_state(s):
    return build_state(s)


def build_planning_problem(s):
    goal_states = [build_goal_state(g) for g in s["goals"]]
    log = s.get("goal_lanelets")
    if log is not None:
        log = {int(k): list(v) for k, v in log.items()}
    return PlanningProblem(int(s["id"]), build_state(dict(s["init"], cls="initial")), GoalRegion(goal_states, log))


def build_pps(s):
    return PlanningProblemSet([build_planning_problem(p) for p in s])
